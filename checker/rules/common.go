package rules

import (
	"go/constant"
	"go/token"
	"go/types"
	"sort"
	"strings"

	"golang.org/x/tools/go/ssa"

	"verifchk/core"
)

// ents caches the typed entities most rules are keyed on.
type ents struct {
	c *Ctx
}

func (c *Ctx) E() ents { return ents{c} }

func (e ents) topicField(n string) *types.Var   { return e.c.field("server", "Topic", n) }
func (e ents) pudField(n string) *types.Var     { return e.c.field("server", "perUserData", n) }
func (e ents) sessionField(n string) *types.Var { return e.c.field("server", "Session", n) }
func (e ents) modeMethod(n string) *types.Func {
	return e.c.method("server/store/types", "AccessMode", n)
}
func (e ents) storeIface(iface, m string) *types.Func {
	return e.c.method("server/store", iface, m)
}

// sameValue: structural equality of two SSA values for the purposes of "same record".
func sameValue(a, b ssa.Value, depth int) bool {
	a, b = core.Strip(a), core.Strip(b)
	// a variable captured by a function literal is the enclosing function's variable
	if fv, ok := a.(*ssa.FreeVar); ok {
		if w := core.FreeVarBinding(fv); w != nil {
			a = w
		}
	}
	if fv, ok := b.(*ssa.FreeVar); ok {
		if w := core.FreeVarBinding(fv); w != nil {
			b = w
		}
	}
	if a == b {
		return true
	}
	if depth > 6 {
		return false
	}
	switch x := a.(type) {
	case *ssa.Extract:
		y, ok := b.(*ssa.Extract)
		return ok && x.Index == y.Index && sameValue(x.Tuple, y.Tuple, depth+1)
	case *ssa.Lookup:
		y, ok := b.(*ssa.Lookup)
		return ok && sameValue(x.X, y.X, depth+1) && sameValue(x.Index, y.Index, depth+1)
	case *ssa.UnOp:
		y, ok := b.(*ssa.UnOp)
		return ok && x.Op == y.Op && sameValue(x.X, y.X, depth+1)
	case *ssa.FieldAddr:
		y, ok := b.(*ssa.FieldAddr)
		return ok && x.Field == y.Field && sameValue(x.X, y.X, depth+1)
	case *ssa.Field:
		y, ok := b.(*ssa.Field)
		return ok && x.Field == y.Field && sameValue(x.X, y.X, depth+1)
	case *ssa.IndexAddr:
		y, ok := b.(*ssa.IndexAddr)
		return ok && sameValue(x.X, y.X, depth+1) && sameValue(x.Index, y.Index, depth+1)
	case *ssa.BinOp:
		y, ok := b.(*ssa.BinOp)
		return ok && x.Op == y.Op && sameValue(x.X, y.X, depth+1) && sameValue(x.Y, y.Y, depth+1)
	case *ssa.Const:
		y, ok := b.(*ssa.Const)
		if !ok {
			return false
		}
		if x.Value == nil || y.Value == nil {
			return x.Value == nil && y.Value == nil
		}
		return constant.Compare(x.Value, token.EQL, y.Value)
	}
	return false
}

// effMode matches `r.modeWant & r.modeGiven` (either order) of one and the same record r, where
// want/given are the given field objects. Returns the record base.
func effMode(v ssa.Value, want, given *types.Var) (bool, ssa.Value) {
	if call, isCall := core.Strip(v).(*ssa.Call); isCall {
		// an accessor of the record: `func (p perUserData) effectiveMode() AccessMode`
		if callee := call.Call.StaticCallee(); callee != nil && core.InModule(callee) {
			if pi, ok := effAccessor(callee, want, given); ok && pi < len(call.Call.Args) {
				return true, call.Call.Args[pi]
			}
		}
		return false, nil
	}
	b, ok := core.Strip(v).(*ssa.BinOp)
	if !ok || b.Op != token.AND {
		return false, nil
	}
	f1, b1 := core.LoadedField(core.Strip(b.X))
	f2, b2 := core.LoadedField(core.Strip(b.Y))
	if f1 == nil || f2 == nil {
		return false, nil
	}
	if !((f1 == want && f2 == given) || (f1 == given && f2 == want)) {
		return false, nil
	}
	if !sameValue(b1, b2, 0) {
		return false, nil
	}
	return true, b1
}

type effAccKey struct {
	fn   *ssa.Function
	want *types.Var
}

var effAccMemo = map[effAccKey]int{}

// effAccessor: every return of fn yields want&given of the record passed as parameter #idx (or a
// constant: ModeInvalid / ModeNone for a record that does not count), at least one the intersection.
func effAccessor(fn *ssa.Function, want, given *types.Var) (int, bool) {
	key := effAccKey{fn, want}
	if v, ok := effAccMemo[key]; ok {
		return v, v >= 0
	}
	effAccMemo[key] = -1
	if fn.Signature.Results().Len() != 1 || !isModeType(fn.Signature.Results().At(0).Type()) {
		return -1, false
	}
	idx, n, good := -1, 0, true
	var visit func(v ssa.Value, d int)
	visit = func(v ssa.Value, d int) {
		v = core.Strip(v)
		if d > 4 {
			good = false
			return
		}
		switch x := v.(type) {
		case *ssa.Const:
			return
		case *ssa.Phi:
			for _, e := range x.Edges {
				visit(e, d+1)
			}
			return
		}
		ok, base := effMode(v, want, given)
		if !ok {
			good = false
			return
		}
		// the record is a parameter (by value or by pointer)
		b := core.Strip(base)
		if u, isLoad := b.(*ssa.UnOp); isLoad && u.Op == token.MUL {
			b = core.Strip(u.X)
		}
		if a, isAlloc := b.(*ssa.Alloc); isAlloc && a.Referrers() != nil {
			// a by-value parameter spilled to a local because its fields are addressed
			var st *ssa.Store
			nst := 0
			for _, r := range *a.Referrers() {
				if s, ok := r.(*ssa.Store); ok && s.Addr == ssa.Value(a) {
					st, nst = s, nst+1
				}
			}
			if nst == 1 {
				b = core.Strip(st.Val)
			}
		}
		p, isP := b.(*ssa.Parameter)
		if !isP {
			good = false
			return
		}
		for i, q := range fn.Params {
			if q == p {
				if idx >= 0 && idx != i {
					good = false
				}
				idx = i
			}
		}
		n++
	}
	core.AllInstrs(fn, func(in ssa.Instruction) {
		if ret, ok := in.(*ssa.Return); ok && len(ret.Results) == 1 {
			visit(ret.Results[0], 0)
		}
	})
	if !good || n == 0 || idx < 0 {
		return -1, false
	}
	effAccMemo[key] = idx
	return idx, true
}

// isEffMode is the predicate form over perUserData.modeWant/modeGiven.
func (c *Ctx) isEffMode() core.VPred {
	w, g := c.E().pudField("modeWant"), c.E().pudField("modeGiven")
	return func(v ssa.Value) bool {
		ok, _ := effMode(v, w, g)
		return ok
	}
}

// isEffModeSub is the predicate over types.Subscription.ModeWant/ModeGiven.
func (c *Ctx) isEffModeSub() core.VPred {
	w := c.field("server/store/types", "Subscription", "ModeWant")
	g := c.field("server/store/types", "Subscription", "ModeGiven")
	return func(v ssa.Value) bool {
		ok, _ := effMode(v, w, g)
		return ok
	}
}

// effCheck: guard "AccessMode.<Is..>() on want&given of one record == want".
func (c *Ctx) effGuard(isMethod string, want bool) core.Guard {
	m := c.E().modeMethod(isMethod)
	return core.BoolGuard(isMethod+"(want&given)", core.IsCallTo(m, c.isEffMode()), want)
}

// chanSends lists the sends (plain and in select) in fn on a channel loaded from field f.
type chanSend struct {
	Instr ssa.Instruction
	Chan  ssa.Value
	Val   ssa.Value
	At    ssa.Instruction // where the destination was chosen: Instr, or - when the channel is a phi (`dst = a; ... dst = b; dst <- m`) - the end of the block that picked this channel
}

func chanSends(fn *ssa.Function, isChan core.VPred) []chanSend {
	return chanSendsDepth(fn, isChan, 0)
}

// chanSendsDepth also reports sends made through an extracted helper: a static call of a module
// function that sends on one of its channel parameters, when the argument matches isChan; the
// reported instruction is the call in fn.
func chanSendsDepth(fn *ssa.Function, isChan core.VPred, depth int) []chanSend {
	var out []chanSend
	core.AllInstrs(fn, func(in ssa.Instruction) {
		switch x := in.(type) {
		case *ssa.Send:
			for _, ch := range chanChoices(x.Chan, x) {
				if isChan(ch.v) {
					out = append(out, chanSend{x, ch.v, x.X, ch.at})
				}
			}
		case *ssa.Select:
			for _, st := range x.States {
				if st.Dir != types.SendOnly {
					continue
				}
				for _, ch := range chanChoices(st.Chan, x) {
					if isChan(ch.v) {
						out = append(out, chanSend{x, ch.v, st.Send, ch.at})
					}
				}
			}
		case *ssa.Call:
			callee := x.Call.StaticCallee()
			if depth >= 2 || callee == fn || !core.InModule(callee) {
				return
			}
			for i, p := range callee.Params {
				if i >= len(x.Call.Args) {
					break
				}
				if _, isCh := p.Type().Underlying().(*types.Chan); !isCh || !isChan(x.Call.Args[i]) {
					continue
				}
				p := p
				for _, inner := range chanSendsDepth(callee, func(v ssa.Value) bool { return v == ssa.Value(p) }, depth+1) {
					val := inner.Val
					for j, q := range callee.Params {
						if val == ssa.Value(q) && j < len(x.Call.Args) {
							val = x.Call.Args[j]
						}
					}
					out = append(out, chanSend{x, x.Call.Args[i], val, x})
				}
			}
		}
	})
	return out
}

// selectSendGuard: the condition `chosen == k` of a lowered select whose state k sends on a channel
// satisfying isChan; the pass edges are the ones on which the send was made (also through a helper
// returning the outcome, by the guard-wrapper summaries of core.PassEdges).
func selectSendGuard(name string, isChan core.VPred) core.Guard {
	return core.Guard{Name: name, Match: func(a core.CondAtom) (bool, bool) {
		if a.Op != token.EQL {
			return false, false
		}
		var ex *ssa.Extract
		var k ssa.Value
		if e, ok := a.X.(*ssa.Extract); ok {
			ex, k = e, a.Y
		} else if e, ok := a.Y.(*ssa.Extract); ok {
			ex, k = e, a.X
		}
		if ex == nil || ex.Index != 0 {
			return false, false
		}
		sel, ok := ex.Tuple.(*ssa.Select)
		if !ok {
			return false, false
		}
		n, ok := core.ConstIntValue(k)
		if !ok || int(n) < 0 || int(n) >= len(sel.States) {
			return false, false
		}
		st := sel.States[int(n)]
		if st.Dir != types.SendOnly || !isChan(st.Chan) {
			return false, false
		}
		return true, true
	}}
}

// selectSendEdges: for a Select instruction, the CFG edges taken when state idx was chosen.
// go/ssa lowers `select` to: t = select ...; idx = extract t #0; if idx == 0 goto ... chain.
func selectCaseEdges(sel *ssa.Select, state int) map[core.Edge]bool {
	out := map[core.Edge]bool{}
	fn := sel.Parent()
	for _, b := range fn.Blocks {
		if len(b.Instrs) == 0 {
			continue
		}
		ifi, ok := b.Instrs[len(b.Instrs)-1].(*ssa.If)
		if !ok {
			continue
		}
		a := core.NormCond(ifi.Cond)
		if a.Op != token.EQL {
			continue
		}
		var ex *ssa.Extract
		var k ssa.Value
		if e, ok := a.X.(*ssa.Extract); ok {
			ex, k = e, a.Y
		} else if e, ok := a.Y.(*ssa.Extract); ok {
			ex, k = e, a.X
		}
		if ex == nil || ex.Tuple != ssa.Value(sel) || ex.Index != 0 {
			continue
		}
		if n, ok := core.ConstIntValue(k); ok && int(n) == state {
			if a.Negated {
				out[core.Edge{From: b, Idx: 1}] = true
			} else {
				out[core.Edge{From: b, Idx: 0}] = true
			}
		}
	}
	return out
}

// isStoreCall: the instruction invokes a method of one of the store persistence interfaces
// (store.Users, store.Topics, store.Subs, store.Messages, store.Files, store.Devices, store.PCache).
func (c *Ctx) isStoreCall(in ssa.Instruction) (*types.Func, bool) {
	ci, ok := in.(ssa.CallInstruction)
	if !ok {
		return nil, false
	}
	cc := ci.Common()
	if !cc.IsInvoke() {
		return nil, false
	}
	recv := cc.Value.Type()
	n, ok := recv.(*types.Named)
	if !ok {
		return nil, false
	}
	if n.Obj().Pkg() == nil || n.Obj().Pkg().Path() != core.ModPath+"/server/store" {
		return nil, false
	}
	if !strings.HasSuffix(n.Obj().Name(), "PersistenceInterface") {
		return nil, false
	}
	return cc.Method, true
}

// storeWriteNames: methods of the persistence interfaces that mutate the database.
var storeWritePrefixes = []string{"Create", "Update", "Delete", "Save", "Upsert", "Link", "OwnerChange", "Confirm", "Fail", "Del", "Add", "StartUpload", "FinishUpload", "UpdateTags", "UpdateLastSeen", "UpdateAuthRecord", "UpdateState", "UpsertCred", "ConfirmCred", "FailCred", "DelCred", "DelAuthRecords", "AddAuthRecord"}

func isStoreWriteName(name string) bool {
	for _, p := range storeWritePrefixes {
		if strings.HasPrefix(name, p) {
			return true
		}
	}
	return false
}

// callReturnsType: call whose (first) result has named type rel.name (possibly pointer).
func callResultIs(ci ssa.CallInstruction, pkgPath, name string) bool {
	sig := ci.Common().Signature()
	if sig.Results().Len() == 0 {
		return false
	}
	t := sig.Results().At(0).Type()
	if p, ok := t.(*types.Pointer); ok {
		t = p.Elem()
	}
	n, ok := t.(*types.Named)
	return ok && n.Obj().Name() == name && n.Obj().Pkg() != nil && n.Obj().Pkg().Path() == pkgPath
}

// benignCall: calls that have no effect on topic/store/other users: reply constructors,
// queueOut*, logging, time, name rendering, builtins, conversions.
func (c *Ctx) benignCall(in ssa.Instruction) bool {
	ci, ok := in.(ssa.CallInstruction)
	if !ok {
		return true
	}
	cc := ci.Common()
	if b, ok := cc.Value.(*ssa.Builtin); ok {
		switch b.Name() {
		case "len", "cap", "append", "copy", "min", "max", "print", "println":
			return true
		}
		return false // delete, close ...
	}
	if callResultIs(ci, core.ModPath+"/server", "ServerComMessage") {
		// constructors of replies: package-level functions in server returning *ServerComMessage
		if f := cc.StaticCallee(); f != nil && f.Signature.Recv() == nil && core.InPkg(f, "server") {
			return true
		}
	}
	// a helper or a directly called function literal that itself does nothing but reply / log
	if g := cc.StaticCallee(); g != nil && core.InModule(g) && len(g.Blocks) > 0 {
		if _, isCall := in.(*ssa.Call); isCall && c.effectFreeFunc(g, 0) {
			return true
		}
	}
	f := core.CalleeOf(cc)
	if f == nil {
		return false
	}
	pk := ""
	if f.Pkg() != nil {
		pk = f.Pkg().Path()
	}
	switch {
	case pk == core.ModPath+"/server/logs", pk == "log", pk == "fmt" && strings.HasPrefix(f.Name(), "Sprint"),
		pk == "strings", pk == "strconv", pk == "time", pk == "errors", pk == "sort" && false:
		return true
	}
	full := f.FullName()
	for _, ok := range []string{
		"(*" + core.ModPath + "/server.Session).queueOut",
		"(*" + core.ModPath + "/server.Session).queueOutBytes",
		"(*" + core.ModPath + "/server.Topic).original",
		core.ModPath + "/server/store/types.TimeNow",
		"(" + core.ModPath + "/server/store/types.Uid).UserId",
		"(" + core.ModPath + "/server/store/types.Uid).String",
		"(" + core.ModPath + "/server/store/types.Uid).IsZero",
		core.ModPath + "/server/store/types.ParseUserId",
		"(*log.Logger).Printf", "(*log.Logger).Println", "(*log.Logger).Print",
	} {
		if full == ok {
			return true
		}
	}
	// AccessMode predicates and other pure methods of store/types value types
	if pk == core.ModPath+"/server/store/types" {
		if sig, ok := f.Type().(*types.Signature); ok && sig.Recv() != nil {
			if _, isPtr := sig.Recv().Type().(*types.Pointer); !isPtr {
				return true
			}
		}
	}
	return false
}

// effectFreeFunc: no instruction of fn has an effect (writes to variables captured from the
// enclosing function are local there); memoised, two levels of helpers.
func (c *Ctx) effectFreeFunc(fn *ssa.Function, depth int) bool {
	if c.effFree == nil {
		c.effFree = map[*ssa.Function]int{}
	}
	switch c.effFree[fn] {
	case 1:
		return true
	case 2, 3:
		return false // 3: in progress (recursion)
	}
	if depth > 2 {
		return false
	}
	c.effFree[fn] = 3
	ok := true
	core.AllInstrs(fn, func(in ssa.Instruction) {
		if !ok {
			return
		}
		if st, isSt := in.(*ssa.Store); isSt {
			if _, isFV := st.Addr.(*ssa.FreeVar); isFV {
				return
			}
		}
		if c.isEffectInstr(in) {
			ok = false
		}
	})
	if ok {
		c.effFree[fn] = 1
	} else {
		c.effFree[fn] = 2
	}
	return ok
}

// effectFreeFrom checks that from the given edges to function exit no instruction with an
// effect is executed: only benign calls, no stores to heap fields, no map updates, no sends,
// no go statements. Returns the first offending instruction.
// effectFreeFromNil is effectFreeFrom on nil-feasible paths (a refusal kept in a local and tested
// for nil before the single reply/return).
func (c *Ctx) effectFreeFromNil(fn *ssa.Function, edges map[core.Edge]bool) ssa.Instruction {
	if bad := c.effectFreeFrom(fn, edges, nil); bad == nil {
		return nil
	}
	var hit ssa.Instruction
	res := core.NilWalk(fn, edges, nil, nil, func(in ssa.Instruction, _ core.NilFacts) {
		if hit == nil && c.isEffectInstr(in) {
			hit = in
		}
	})
	if res.Overflow {
		return c.effectFreeFrom(fn, edges, nil)
	}
	return hit
}

func (c *Ctx) isEffectInstr(in ssa.Instruction) bool {
	switch x := in.(type) {
	case *ssa.Call, *ssa.Defer:
		return !c.benignCall(in)
	case *ssa.Go, *ssa.Send, *ssa.MapUpdate:
		return true
	case *ssa.Select:
		for _, st := range x.States {
			if st.Dir == types.SendOnly {
				return true
			}
		}
	case *ssa.Store:
		return !rootsInAlloc(x.Addr)
	}
	return false
}

func (c *Ctx) effectFreeFrom(fn *ssa.Function, edges map[core.Edge]bool, cut map[core.Edge]bool) ssa.Instruction {
	isEffect := func(in ssa.Instruction) bool {
		switch x := in.(type) {
		case *ssa.Call, *ssa.Defer:
			return !c.benignCall(in)
		case *ssa.Go, *ssa.Send, *ssa.MapUpdate:
			return true
		case *ssa.Select:
			for _, st := range x.States {
				if st.Dir == types.SendOnly {
					return true
				}
			}
		case *ssa.Store:
			// stores into cells/objects allocated by this very function (locals, reply literals,
			// vararg arrays) are not effects; stores through anything else are.
			return !rootsInAlloc(x.Addr)
		}
		return false
	}
	found, in := core.PathFromEdgeAvoiding(fn, edges, isEffect, nil, cut)
	if found {
		return in
	}
	return nil
}

// constMaskOK evaluates (a & b) == 0 for two named constants.
func constAndIsZero(a, b *types.Const) bool {
	v := constant.BinaryOp(a.Val(), token.AND, b.Val())
	return constant.Sign(v) == 0
}

func constHasBits(a, b *types.Const) bool {
	v := constant.BinaryOp(a.Val(), token.AND, b.Val())
	return constant.Compare(v, token.EQL, b.Val())
}

func constantInt64(k *types.Const) (int64, bool) {
	return constant.Int64Val(constant.ToInt(k.Val()))
}

// rootsInAlloc: the address is (a field/element of) an object allocated in the same function.
func rootsInAlloc(a ssa.Value) bool {
	for i := 0; i < 8; i++ {
		switch x := a.(type) {
		case *ssa.Alloc:
			return true
		case *ssa.FieldAddr:
			a = x.X
		case *ssa.IndexAddr:
			a = x.X
		case *ssa.Slice:
			a = x.X
		default:
			return false
		}
	}
	return false
}

func tokenAND() token.Token { return token.AND }

// modeRecvClass classifies the receiver of an AccessMode predicate.
func (c *Ctx) modeRecvClass(v ssa.Value) string {
	v = core.Strip(v)
	if c.isEffMode()(v) {
		return "want&given(perUser record)"
	}
	if c.isEffModeSub()(v) {
		return "want&given(stored subscription)"
	}
	if f, _ := core.LoadedField(v); f != nil {
		return "field " + f.Name()
	}
	switch x := v.(type) {
	case *ssa.BinOp:
		return "binop " + x.Op.String() + "(" + c.modeRecvClass(x.X) + "," + c.modeRecvClass(x.Y) + ")"
	case *ssa.UnOp:
		if _, ok := x.X.(*ssa.Alloc); ok {
			return "local"
		}
		return "load"
	case *ssa.Parameter:
		return "param " + x.Name()
	case *ssa.Phi:
		return "phi"
	case *ssa.Const:
		return "const"
	case *ssa.Call:
		if f := core.CalleeOf(&x.Call); f != nil {
			return "call " + f.Name()
		}
	case *ssa.Extract:
		return "extract"
	}
	return "other"
}

// withCallees visits every instruction of root and of the module functions it calls statically
// (transitively, at most depth levels), with core.ParamSubst mapping the callee's parameters to the
// arguments of the call for the duration of the visit, so that value predicates written for the root
// function keep matching inside an extracted helper. outer is the instruction of root through which
// the visited instruction is reached (the instruction itself at level 0).
func (c *Ctx) withCallees(root *ssa.Function, depth int, visit func(owner *ssa.Function, in ssa.Instruction, outer ssa.Instruction)) {
	seen := map[*ssa.Function]bool{root: true}
	var walk func(fn *ssa.Function, outer ssa.Instruction, d int)
	walk = func(fn *ssa.Function, outer ssa.Instruction, d int) {
		core.AllInstrs(fn, func(in ssa.Instruction) {
			o := outer
			if o == nil {
				o = in
			}
			visit(fn, in, o)
			ci, ok := in.(ssa.CallInstruction)
			if !ok || d >= depth {
				return
			}
			if _, isGo := in.(*ssa.Go); isGo {
				return
			}
			callee := ci.Common().StaticCallee()
			if callee == nil || callee.Blocks == nil || seen[callee] || !core.InModule(callee) || c.noDescend[callee] {
				return
			}
			seen[callee] = true
			saved := core.ParamSubst
			ns := map[ssa.Value]ssa.Value{}
			for k, v := range saved {
				ns[k] = v
			}
			args := ci.Common().Args
			for i, p := range callee.Params {
				if i < len(args) {
					ns[p] = args[i]
				}
			}
			core.ParamSubst = ns
			walk(callee, o, d+1)
			core.ParamSubst = saved
			delete(seen, callee)
		})
	}
	walk(root, nil, 0)
}

// callsDeep: fn, or a module function it calls statically (at most depth levels), calls target.
func (c *Ctx) callsDeep(fn *ssa.Function, target *types.Func, depth int) bool {
	found := false
	c.withCallees(fn, depth, func(_ *ssa.Function, in ssa.Instruction, _ ssa.Instruction) {
		if ci, ok := in.(ssa.CallInstruction); ok && core.CalleeOf(ci.Common()) == target {
			found = true
		}
	})
	return found
}

// liftToCallers: check holds for the instruction in fn, or - when the instruction sits in an
// extracted helper - for every call site of fn in its callers (at most two levels up). check builds
// its guards from the function it is given.
func (c *Ctx) liftToCallers(fn *ssa.Function, at ssa.Instruction, depth int, check func(f *ssa.Function, at ssa.Instruction) bool) bool {
	if check(fn, at) {
		return true
	}
	if depth >= 2 {
		return false
	}
	callers := c.callersOf(fn)
	if len(callers) == 0 {
		return false
	}
	for _, cs := range callers {
		if _, isCall := cs.Site.(*ssa.Call); !isCall {
			return false
		}
		if !c.liftToCallers(cs.Caller, cs.Site, depth+1, check) {
			return false
		}
	}
	return true
}

// getterCallers: the functions of package pkg that obtain the result of the store method m, either
// by calling it or through a module wrapper whose result #0 is that result (nil constants are
// neutral); wrappers themselves are not listed. For each function the obtaining call sites.
func (c *Ctx) getterCallers(m *types.Func, pkg string) map[*ssa.Function][]*ssa.Call {
	wrappers := map[*ssa.Function]bool{}
	isGetCall := func(call *ssa.Call) bool {
		if core.CalleeOf(&call.Call) == m {
			return true
		}
		sc := call.Call.StaticCallee()
		return sc != nil && wrappers[sc]
	}
	// fixpoint over wrappers (two rounds are enough for wrapper-of-wrapper)
	for round := 0; round < 2; round++ {
		for _, fn := range c.P.ModFuncs {
			if !core.InPkg(fn, pkg) || wrappers[fn] || fn.Signature.Results().Len() == 0 {
				continue
			}
			var gets []*ssa.Call
			core.AllInstrs(fn, func(in ssa.Instruction) {
				if call, ok := in.(*ssa.Call); ok && isGetCall(call) {
					gets = append(gets, call)
				}
			})
			if len(gets) != 1 {
				continue
			}
			isRes := errResultOf(gets[0], 0)
			good, n := true, 0
			core.AllInstrs(fn, func(in ssa.Instruction) {
				ret, ok := in.(*ssa.Return)
				if !ok {
					return
				}
				n++
				v := ret.Results[0]
				if k, isK := v.(*ssa.Const); isK && k.Value == nil {
					return
				}
				if !core.Derives(v, isRes, true) {
					good = false
				}
			})
			if good && n > 0 && types.Identical(fn.Signature.Results().At(0).Type(), m.Type().(*types.Signature).Results().At(0).Type()) {
				wrappers[fn] = true
			}
		}
	}
	out := map[*ssa.Function][]*ssa.Call{}
	for _, fn := range c.P.ModFuncs {
		if !core.InPkg(fn, pkg) || wrappers[fn] {
			continue
		}
		core.AllInstrs(fn, func(in ssa.Instruction) {
			if call, ok := in.(*ssa.Call); ok && isGetCall(call) {
				out[fn] = append(out[fn], call)
			}
		})
	}
	return out
}

// stringConstsOf: the constant strings v can take: a constant, or an element of a slice/array
// literal of constants that is ranged over (`for _, p := range []string{...}`).
func stringConstsOf(v ssa.Value) []string {
	v = core.Strip(v)
	if k, ok := v.(*ssa.Const); ok && k.Value != nil && k.Value.Kind() == constant.String {
		return []string{constant.StringVal(k.Value)}
	}
	ld, ok := v.(*ssa.UnOp)
	if !ok || ld.Op != token.MUL {
		return nil
	}
	ia, ok := ld.X.(*ssa.IndexAddr)
	if !ok {
		return nil
	}
	base := ia.X
	if sl, ok := base.(*ssa.Slice); ok {
		base = sl.X
	}
	al, ok := base.(*ssa.Alloc)
	if !ok || al.Referrers() == nil {
		return nil
	}
	var out []string
	for _, ref := range *al.Referrers() {
		ea, ok := ref.(*ssa.IndexAddr)
		if !ok || ea.Referrers() == nil {
			continue
		}
		for _, r2 := range *ea.Referrers() {
			if st, ok := r2.(*ssa.Store); ok && st.Addr == ssa.Value(ea) {
				if k, ok := st.Val.(*ssa.Const); ok && k.Value != nil && k.Value.Kind() == constant.String {
					out = append(out, constant.StringVal(k.Value))
				}
			}
		}
	}
	return out
}

// errValueOf: the SSA value carrying the error result of a call (the call itself for a single
// result, the Extract of the error index otherwise); nil when it is not used.
func errValueOf(site ssa.CallInstruction) ssa.Value {
	v, ok := site.(ssa.Value)
	if !ok {
		return nil
	}
	sig := site.Common().Signature()
	ei := errIndex(sig)
	if ei < 0 {
		return nil
	}
	if sig.Results().Len() == 1 {
		return v
	}
	if refs := v.Referrers(); refs != nil {
		for _, ref := range *refs {
			if ex, ok := ref.(*ssa.Extract); ok && ex.Index == ei {
				return ex
			}
		}
	}
	return nil
}

// pathFromEdgeAvoidingNil: PathFromEdgeAvoiding, then - when a path was found - confirmed on
// nil-feasible paths only (a pending refusal kept in a nil-able local, a named error, ...).
func pathFromEdgeAvoidingNil(fn *ssa.Function, edges map[core.Edge]bool, target, avoid func(ssa.Instruction) bool, cut map[core.Edge]bool) (bool, ssa.Instruction) {
	found, w := core.PathFromEdgeAvoiding(fn, edges, target, avoid, cut)
	if !found {
		return false, nil
	}
	var hit ssa.Instruction
	res := core.NilWalk(fn, edges, cut, avoid, func(in ssa.Instruction, _ core.NilFacts) {
		if hit == nil && target(in) {
			hit = in
		}
	})
	if res.Overflow {
		return true, w
	}
	return hit != nil, hit
}

// afterSuccessOf: the sink is reached only after the call succeeded: behind its err==nil edge, or -
// when the error is merged into a variable tested later - the call lies on every path to the sink
// and, with its error assumed non-nil, the sink is not reached on nil-feasible paths.
func (c *Ctx) afterSuccessOf(fn *ssa.Function, call ssa.CallInstruction, sink ssa.Instruction) bool {
	if ok, _ := core.GuardedBy(fn, sink, successGuard(call)); ok {
		return true
	}
	errV := errValueOf(call)
	if errV == nil {
		return false
	}
	if skip, _ := core.PathAvoiding(fn, nil, func(in ssa.Instruction) bool { return in == sink }, func(in ssa.Instruction) bool { return in == call.(ssa.Instruction) }, nil); skip {
		// confirm on nil-feasible paths (the call may be conditional on an earlier call's success)
		skipped := false
		res := core.NilWalk(fn, nil, nil, func(in ssa.Instruction) bool { return in == call.(ssa.Instruction) }, func(in ssa.Instruction, _ core.NilFacts) {
			if in == sink {
				skipped = true
			}
		})
		if skipped || res.Overflow {
			return false
		}
	}
	reached := false
	res := core.NilWalkAfterWith(fn, call.(ssa.Instruction), core.NilFacts{errV: false}, nil, nil, func(in ssa.Instruction, _ core.NilFacts) {
		if in == sink {
			reached = true
		}
	})
	return !reached && !res.Overflow
}

type chanChoice struct {
	v  ssa.Value
	at ssa.Instruction
}

// chanChoices: the channel operand itself, or - for a destination picked earlier into a variable -
// each incoming value of the phi with the end of the block that chose it.
func chanChoices(ch ssa.Value, at ssa.Instruction) []chanChoice {
	phi, ok := ch.(*ssa.Phi)
	if !ok {
		return []chanChoice{{ch, at}}
	}
	var out []chanChoice
	for i, e := range phi.Edges {
		pred := phi.Block().Preds[i]
		v := e
		if cv, ok := e.(*ssa.ChangeType); ok {
			v = cv.X
		}
		out = append(out, chanChoice{v, pred.Instrs[len(pred.Instrs)-1]})
	}
	return out
}

// allChoices: every possible channel of the operand satisfies p (for hand-off classification).
func allChanChoices(ch ssa.Value, p func(ssa.Value) bool) bool {
	cs := chanChoices(ch, nil)
	for _, c := range cs {
		if c.v == nil {
			return false
		}
		if k, isK := c.v.(*ssa.Const); isK && k.Value == nil {
			continue // nil channel: the send is never chosen
		}
		if !p(c.v) {
			return false
		}
	}
	return len(cs) > 0
}

// vstore: one way a store can receive its value. A store of a phi (`new := old; if c { new = x };
// rec.f = new`) is expanded into one virtual store per incoming value, located at the end of the
// block that chose the value; edges that merely carry the field's current value are dropped.
type vstore struct {
	St  *ssa.Store
	Val ssa.Value
	At  ssa.Instruction
}

func virtualStores(fn *ssa.Function, field *types.Var) []vstore {
	var out []vstore
	for _, st := range core.StoresToField(fn, field) {
		var expand func(v ssa.Value, at ssa.Instruction, d int)
		expand = func(v ssa.Value, at ssa.Instruction, d int) {
			phi, ok := v.(*ssa.Phi)
			if !ok || d > 3 {
				if d > 0 && core.IsFieldLoad(field)(v) {
					return // unchanged value
				}
				out = append(out, vstore{st, v, at})
				return
			}
			for i, e := range phi.Edges {
				pred := phi.Block().Preds[i]
				expand(e, pred.Instrs[len(pred.Instrs)-1], d+1)
			}
		}
		expand(st.Val, st, 0)
	}
	return out
}

// phaseRoot climbs from an extracted phase / helper to the function it was split from: while fn is
// an unexported, non-literal function with exactly one call site, a plain static call, the caller
// takes its place (at most three levels).
func (c *Ctx) phaseRoot(fn *ssa.Function) *ssa.Function {
	for i := 0; i < 3; i++ {
		if fn.Parent() != nil {
			fn = fn.Parent()
			continue
		}
		if fn.Object() != nil && fn.Object().Exported() {
			return fn
		}
		cs := c.callersOf(fn)
		if len(cs) != 1 {
			return fn
		}
		call, ok := cs[0].Site.(*ssa.Call)
		if !ok || call.Call.StaticCallee() != fn || !core.InModule(cs[0].Caller) {
			return fn
		}
		fn = cs[0].Caller
	}
	return fn
}

// regionOf: root, its function literals, and the unexported helpers called (statically, from one
// call site only) by a function of the region (two levels).
func (c *Ctx) regionOf(root *ssa.Function) map[*ssa.Function]bool {
	out := map[*ssa.Function]bool{root: true}
	var add func(fn *ssa.Function, d int)
	add = func(fn *ssa.Function, d int) {
		for _, lit := range fn.AnonFuncs {
			if !out[lit] {
				out[lit] = true
				add(lit, d)
			}
		}
		if d >= 2 {
			return
		}
		core.AllInstrs(fn, func(in ssa.Instruction) {
			call, ok := in.(*ssa.Call)
			if !ok {
				return
			}
			g := call.Call.StaticCallee()
			if g == nil || out[g] || !core.InModule(g) || len(g.Blocks) == 0 {
				return
			}
			if up := c.soleCaller(g); up != nil && out[up] {
				out[g] = true
				add(g, d+1)
			}
		})
	}
	add(root, 0)
	return out
}

// regionInstrs visits the instructions of every function of the region.
func (c *Ctx) regionInstrs(root *ssa.Function, visit func(fn *ssa.Function, in ssa.Instruction)) {
	var fns []*ssa.Function
	for fn := range c.regionOf(root) {
		fns = append(fns, fn)
	}
	sort.Slice(fns, func(i, j int) bool { return fk(fns[i]) < fk(fns[j]) })
	for _, fn := range fns {
		core.AllInstrs(fn, func(in ssa.Instruction) { visit(fn, in) })
	}
}

// rootValue follows a parameter of a phase / helper with a single call site to the argument passed
// there (at most three levels): two values of different phases denote the same object when their
// root values are the same SSA value.
func (c *Ctx) rootValue(v ssa.Value) ssa.Value {
	for i := 0; i < 3; i++ {
		v = core.Strip(v)
		p, ok := v.(*ssa.Parameter)
		if !ok {
			return v
		}
		fn := p.Parent()
		if fn.Parent() != nil || (fn.Object() != nil && fn.Object().Exported()) {
			return v
		}
		cs := c.callersOf(fn)
		if len(cs) != 1 {
			return v
		}
		call, ok := cs[0].Site.(*ssa.Call)
		if !ok || call.Call.StaticCallee() != fn {
			return v
		}
		idx := -1
		for j, q := range fn.Params {
			if q == p {
				idx = j
			}
		}
		if idx < 0 || idx >= len(call.Call.Args) {
			return v
		}
		v = call.Call.Args[idx]
	}
	return core.Strip(v)
}

// literalOf: the fields of the struct literal v points to: a literal built in place, or built by a
// module constructor whose single return is a fresh literal (its parameters are replaced by the
// arguments of the call).
func (c *Ctx) literalOf(v ssa.Value) (map[string]ssa.Value, bool) {
	v = core.Strip(v)
	if a, ok := v.(*ssa.Alloc); ok {
		return literalFields(a), true
	}
	call, ok := v.(*ssa.Call)
	if !ok {
		return nil, false
	}
	g := call.Call.StaticCallee()
	if g == nil || !core.InModule(g) || len(g.Blocks) == 0 {
		return nil, false
	}
	var lit *ssa.Alloc
	n := 0
	core.AllInstrs(g, func(in ssa.Instruction) {
		if ret, ok := in.(*ssa.Return); ok && len(ret.Results) >= 1 {
			n++
			if a, ok := core.Strip(ret.Results[0]).(*ssa.Alloc); ok {
				lit = a
			}
		}
	})
	if n != 1 || lit == nil {
		return nil, false
	}
	out := map[string]ssa.Value{}
	for name, fv := range literalFields(lit) {
		if p, ok := core.Strip(fv).(*ssa.Parameter); ok {
			for j, q := range g.Params {
				if q == p && j < len(call.Call.Args) {
					fv = call.Call.Args[j]
				}
			}
		}
		out[name] = fv
	}
	return out, true
}

// recordRoot: the record a phase received by value (a parameter, possibly spilled to a local) is
// the record its caller passed.
func (c *Ctx) recordRoot(base ssa.Value) ssa.Value {
	b := core.Strip(base)
	if fa, ok := b.(*ssa.FieldAddr); ok {
		// the record kept in a write-once field of a request-scoped struct
		if v := core.CarrierFieldValue(fa); v != nil {
			b = core.Strip(v)
		}
	}
	if a, ok := b.(*ssa.Alloc); ok && a.Referrers() != nil {
		var st *ssa.Store
		n := 0
		for _, r := range *a.Referrers() {
			if s, ok := r.(*ssa.Store); ok && s.Addr == ssa.Value(a) {
				st, n = s, n+1
			}
		}
		if n == 1 {
			b = core.Strip(st.Val)
		}
	}
	return c.rootValue(b)
}

// soleCaller: the caller of an unexported function that has exactly one call site, a plain static
// call; nil otherwise.
func (c *Ctx) soleCaller(fn *ssa.Function) *ssa.Function {
	if fn.Parent() != nil {
		return fn.Parent()
	}
	if fn.Object() != nil && fn.Object().Exported() {
		return nil
	}
	cs := c.callersOf(fn)
	if len(cs) != 1 {
		return nil
	}
	call, ok := cs[0].Site.(*ssa.Call)
	if !ok || call.Call.StaticCallee() != fn || !core.InModule(cs[0].Caller) {
		return nil
	}
	return cs[0].Caller
}

// climbUntil: fn, or the nearest function up its chain of sole callers (two levels) for which ok
// holds; fn itself when none does.
func (c *Ctx) climbUntil(fn *ssa.Function, ok func(root *ssa.Function) bool) *ssa.Function {
	root := fn
	for i := 0; i < 3; i++ {
		if ok(root) {
			return root
		}
		up := c.soleCaller(root)
		if up == nil {
			break
		}
		root = up
	}
	return fn
}

// regionHas: some instruction of the region of root satisfies pred.
func (c *Ctx) regionHas(root *ssa.Function, pred func(ssa.Instruction) bool) bool {
	found := false
	c.regionInstrs(root, func(_ *ssa.Function, in ssa.Instruction) {
		if !found && pred(in) {
			found = true
		}
	})
	return found
}

// withRegionUp runs f with the deep path searches allowed to continue, after a helper of the region
// returns, at the helper's call sites inside the region.
func (c *Ctx) withRegionUp(root *ssa.Function, f func()) {
	region := c.regionOf(root)
	saved := core.DeepUp
	core.DeepUp = func(g *ssa.Function) []*ssa.Call {
		if g == root || !region[g] {
			return nil
		}
		var out []*ssa.Call
		for _, cs := range c.callersOf(g) {
			if call, ok := cs.Site.(*ssa.Call); ok && region[cs.Caller] && call.Call.StaticCallee() == g {
				out = append(out, call)
			}
		}
		return out
	}
	defer func() { core.DeepUp = saved }()
	f()
}

// regionFuncsSorted: the functions of the region of root in a stable order.
func (c *Ctx) regionFuncsSorted(root *ssa.Function) []*ssa.Function {
	var fns []*ssa.Function
	for f := range c.regionOf(root) {
		fns = append(fns, f)
	}
	sort.Slice(fns, func(i, j int) bool { return fk(fns[i]) < fk(fns[j]) })
	return fns
}

// regionCallsTo: the call sites of f in the region of root.
func (c *Ctx) regionCallsTo(root *ssa.Function, f *types.Func) []ssa.CallInstruction {
	var out []ssa.CallInstruction
	for _, fn := range c.regionFuncsSorted(root) {
		out = append(out, core.CallsTo(fn, f)...)
	}
	return out
}

// sameCarrierField: both values are loads of the same field of the same request-scoped object (the
// object being followed through receivers / parameters with a single call site).
func (c *Ctx) sameCarrierField(a, b ssa.Value) bool {
	fa, ba := core.LoadedField(core.Strip(a))
	fb, bb := core.LoadedField(core.Strip(b))
	if fa == nil || fa != fb || ba == nil || bb == nil {
		return false
	}
	ra, rb := c.rootValue(ba), c.rootValue(bb)
	return ra == rb || sameValue(ra, rb, 0)
}
