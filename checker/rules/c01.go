package rules

import (
	"fmt"
	"go/token"
	"go/types"
	"sort"

	"golang.org/x/tools/go/ssa"

	"verifchk/core"
)

func init() { register("C01", checkC01) }

// errResultOf returns a predicate matching the error result of call instruction ci (the call
// value itself for single-result calls, Extract #idx for tuples).
func errResultOf(ci ssa.CallInstruction, idx int) core.VPred {
	return func(v ssa.Value) bool {
		v = core.Strip(v)
		call, ok := ci.(*ssa.Call)
		if !ok {
			return false
		}
		if call.Call.Signature().Results().Len() == 1 {
			return v == ssa.Value(call)
		}
		ex, ok := v.(*ssa.Extract)
		return ok && ex.Tuple == ssa.Value(call) && ex.Index == idx
	}
}

// errIndex returns the index of the error-typed result in the callee signature (-1 if none).
func errIndex(sig *types.Signature) int {
	for i := 0; i < sig.Results().Len(); i++ {
		if types.Identical(sig.Results().At(i).Type(), types.Universe.Lookup("error").Type()) {
			return i
		}
	}
	return -1
}

// successGuard: "err result of this call == nil" passes.
func successGuard(ci ssa.CallInstruction) core.Guard {
	idx := errIndex(ci.Common().Signature())
	return core.NilGuard("err==nil of "+calleeName(ci), errResultOf(ci, idx), true)
}

func calleeName(ci ssa.CallInstruction) string {
	if f := core.CalleeOf(ci.Common()); f != nil {
		return f.Name()
	}
	return "call"
}

func checkC01(c *Ctx) {
	r := c.R
	r.Explanation = "Structural necessary conditions of unique/gapless/ordered message ids: (1) census of every store to Topic.lastID with roles {increment lastID=lastID+1, init from stored types.Topic.SeqId, proxy mirror from MsgServerData.SeqId}; (2) the increment is cut off when the success edge (err==nil) of store.Messages.Save is removed, the saved SeqId is lastID+1, no other lastID store precedes the Save, the acknowledged 'seq' and the broadcast SeqId are loads of lastID that every path reaches only after the increment, the failure edge of Save is effect-free; (3) all lastID writers run only on the topic's goroutine (go-root analysis over the VTA call graph) or in the init goroutine that starts it; (4) in messagesMapper.Save the message-row insert is cut off when the success edge of the topic high-water-mark update is removed and both get the same message; (5) once the message row insert has succeeded no return of messagesMapper.Save yields a non-nil error (else the caller re-issues the number)."
	r.NotDecided = []string{"monotonicity of the stored seqid across restarts inside each database adapter (SQL text, driver behaviour)", "uniqueness under cluster master/proxy message races", "gaplessness as an inductive invariant over histories"}
	r.Trusted = []string{"go/types, go/ssa construction", "VTA call graph soundness (closures, interface dispatch)", "database behind adapter.Adapter"}

	lastID := c.E().topicField("lastID")
	save := c.E().storeIface("MessagesPersistenceInterface", "Save")
	seqIdTopic := c.field("server/store/types", "Topic", "SeqId")
	seqIdData := c.field("server", "MsgServerData", "SeqId")

	runRoots, initRoots := c.topicActorRoots()
	if len(runRoots) == 0 || len(initRoots) == 0 {
		c.lost("topic actor goroutine (go <*Topic method>) / init goroutine")
	}
	ri := c.roots()
	allowedRoot := map[*ssa.Function]bool{}
	for _, f := range runRoots {
		allowedRoot[f] = true
	}
	for _, f := range initRoots {
		allowedRoot[f] = true
	}

	// (1) census of writers
	r.Floor("C01.1-lastID-writer-roles", 3)
	roleSeen := map[string]bool{}
	var incrStores []*ssa.Store
	for _, a := range c.censusField(lastID) {
		if a.Kind != "store" {
			continue
		}
		st := a.Instr.(*ssa.Store)
		r.Func(fk(a.Fn))
		role := ""
		switch {
		case core.IsBinOp(token.ADD, core.IsFieldLoad(lastID), core.IsConstInt(1), true)(st.Val):
			role = "increment"
			incrStores = append(incrStores, st)
		case core.Derives(st.Val, core.IsFieldLoad(seqIdTopic), true):
			role = "init-from-stored-topic"
		case core.Derives(st.Val, core.IsFieldLoad(seqIdData), true):
			role = "proxy-mirror"
		}
		construct := fk(a.Fn) + ": store Topic.lastID [" + role + "]"
		if role == "" {
			r.Fail("C01.1-lastID-writer-roles", fk(a.Fn)+": store Topic.lastID", c.pos(st),
				"Topic.lastID is written with a value that is neither lastID+1, the stored topic's SeqId, nor the master's data SeqId: "+st.Val.String())
			continue
		}
		r.OK("C01.1-lastID-writer-roles", construct, c.pos(st), "value shape matches role")
		roleSeen[role] = true

		// (3) confinement
		roots := ri.of(a.Fn)
		bad := []string{}
		for rt := range roots {
			if !allowedRoot[rt] {
				bad = append(bad, fk(rt))
			}
		}
		r.Check(len(bad) == 0, "C01.3-lastID-writers-on-actor", construct, c.pos(st),
			fmt.Sprintf("reached only from goroutine roots %v", rootNames(roots)),
			fmt.Sprintf("Topic.lastID is written on goroutines other than the topic's own: %v", bad))

		if role == "proxy-mirror" {
			// only in the proxy loop: the function must be reachable only via code guarded by isProxy
			r.Check(c.onlyFromProxyLoop(a.Fn), "C01.1b-proxy-mirror-only-in-proxy", construct, c.pos(st),
				"function is reached only from the proxy branch of the topic loop", "master SeqId mirrored into lastID outside the proxy topic loop")
		}
		if role == "init-from-stored-topic" {
			onlyInit := true
			for rt := range roots {
				isInit := false
				for _, f := range initRoots {
					if f == rt {
						isInit = true
					}
				}
				if !isInit {
					onlyInit = false
				}
			}
			r.Check(onlyInit, "C01.1c-init-only-before-actor", construct, c.pos(st),
				"restore from store happens only on the init goroutine, before the actor starts", "lastID re-initialised from the store on a running topic")
		}
	}
	// (1e) restore completeness: in every init function that restores lastID, every path from
	// "stored topic found" (non-nil result of store.Topics.Get) to a successful return passes the restore.
	topicsGet := c.E().storeIface("TopicsPersistenceInterface", "Get")
	for _, role := range []string{"increment", "init-from-stored-topic", "proxy-mirror"} {
		r.Check(roleSeen[role], "C01.1-lastID-writer-roles", "a writer of Topic.lastID with role "+role+" exists", "-", "", "no writer of Topic.lastID with this role: anchor lost or rule vacuous")
	}
	r.Floor("C01.1e-restore-on-every-load-path", 2)
	isInitRoot := map[*ssa.Function]bool{}
	for _, f := range initRoots {
		isInitRoot[f] = true
	}
	isRestore := core.Deep(func(in ssa.Instruction) bool {
		st, ok := in.(*ssa.Store)
		if !ok {
			return false
		}
		f, _ := core.FieldOfAddr(st.Addr)
		return f == lastID && core.Derives(st.Val, core.IsFieldLoad(seqIdTopic), true)
	}, 2, nil)
	getters := c.getterCallers(topicsGet, "server")
	var loaderFns []*ssa.Function
	for fn := range getters {
		loaderFns = append(loaderFns, fn)
	}
	sort.Slice(loaderFns, func(i, j int) bool { return fk(loaderFns[i]) < fk(loaderFns[j]) })
	for _, fn := range loaderFns {
		// loaders: functions that run only on the init goroutine (they build the Topic before its actor starts)
		onInit := len(ri.of(fn)) > 0
		for rt := range ri.of(fn) {
			if !isInitRoot[rt] {
				onInit = false
			}
		}
		if !onInit {
			continue
		}
		r.Func(fk(fn))
		construct := fk(fn) + ": Topic.lastID restored on every path that found the stored topic"
		for _, g := range getters[fn] {
			isStopic := errResultOf(g, 0)
			errIdx := errIndex(fn.Signature)
			miss := false
			tested := false
			res := core.NilWalk(fn, nil, nil, isRestore,
				func(in ssa.Instruction, f core.NilFacts) {
					for v, isNil := range f {
						if isStopic(v) {
							tested = true
							if ret, ok := in.(*ssa.Return); ok && !isNil && errIdx >= 0 && core.IsNil(ret.Results[errIdx]) {
								miss = true
							}
						}
					}
				})
			if !tested && !res.Overflow {
				// the row comes through a wrapper that turns "not found" into an error: every
				// success return after the call is a "found" path
				miss = false
				res = core.NilWalkAfter(fn, g, nil, isRestore, func(in ssa.Instruction, f core.NilFacts) {
					ret, ok := in.(*ssa.Return)
					if !ok || errIdx < 0 {
						return
					}
					if k, n := core.Nilness(ret.Results[errIdx], f); k && !n {
						return
					}
					miss = true
				})
				tested = core.CalleeOf(&g.Call) != topicsGet
			}
			if res.Overflow || !tested {
				r.Fail("C01.1e-restore-on-every-load-path", construct, c.pos(g), "result of store.Topics.Get is not tested for nil, or path exploration overflowed: undecided")
				continue
			}
			r.Check(!miss, "C01.1e-restore-on-every-load-path", construct, c.pos(g),
				"every successful load of an existing topic restores lastID from the stored SeqId",
				"some path loads an existing topic and returns success without restoring Topic.lastID: numbering restarts below ids already issued")
		}
	}
	r.Check(len(incrStores) == 1, "C01.1d-single-increment-site", "store Topic.lastID = lastID+1", "-",
		"exactly one increment site", fmt.Sprintf("%d increment sites of Topic.lastID (expected exactly 1)", len(incrStores)))

	// (2) increment discipline in the function(s) that call Save
	r.Floor("C01.2-increment-after-save-success", 1)
	for _, sfn := range c.funcsCalling(save, "server") {
		r.Func(fk(sfn))
		// the saving function may be one phase of a function split into validate / apply / notify:
		// the rules range over the function the phases belong to
		root := c.phaseRoot(sfn)
		region := c.regionOf(root)
		sites := core.CallsTo(sfn, save)
		for _, site := range sites {
			r.CallSites++
			g := successGuard(site)
			var myIncr []*ssa.Store
			for _, st := range incrStores {
				if region[st.Parent()] {
					myIncr = append(myIncr, st)
				}
			}
			construct := fk(root) + ": Topic.lastID++ after store.Messages.Save"
			if len(myIncr) == 0 {
				r.Fail("C01.2-increment-after-save-success", construct, c.pos(site), "function saves a message but never advances Topic.lastID")
				continue
			}
			// the function in which the order of Save and another instruction is decided: the saving
			// function itself when both are there, the root otherwise
			scope := func(in ssa.Instruction) *ssa.Function {
				if in.Parent() == sfn {
					return sfn
				}
				return root
			}
			for _, st := range myIncr {
				ok, cnt := core.GuardedBy(st.Parent(), st, g)
				r.Check(ok && cnt[0] > 0, "C01.2-increment-after-save-success", construct, c.pos(st),
					"increment is reachable only through err==nil of Save", "Topic.lastID is advanced on a path where Messages.Save did not succeed (or its error is not tested)")
				// every success path increments: from success edge to return, must pass the store
				F := scope(st)
				pe, _ := core.PassEdges(F, g)
				found, _ := core.PathFromEdgeAvoidingX(F, pe, core.IsReturn, func(in ssa.Instruction) bool { return in == ssa.Instruction(st) }, nil)
				r.Check(!found && len(pe) > 0, "C01.2b-success-always-increments", construct, c.pos(st),
					"every path from Save success to return passes the increment", "a path from a successful Save to return skips the lastID increment (number would be re-issued)")
			}
			// no store to lastID between entry and Save
			isLastStore := func(in ssa.Instruction) bool {
				s, ok := in.(*ssa.Store)
				if !ok {
					return false
				}
				f, _ := core.FieldOfAddr(s.Addr)
				return f == lastID
			}
			found, w := core.PathAvoidingX(root, nil, isLastStore, func(in ssa.Instruction) bool { return in == ssa.Instruction(site.(ssa.Instruction)) }, nil)
			r.Check(!found, "C01.2c-no-write-before-save", fk(root)+": no lastID store before Save", c.pos(site),
				"lastID untouched before Save", "Topic.lastID is written before Messages.Save on some path"+posOf(c, w))

			// failure edge effect-free
			fe := core.FailEdges(sfn, g)
			if bad := c.effectFreeFrom(sfn, fe, nil); bad != nil {
				r.Fail("C01.2d-failed-save-consumes-nothing", fk(root)+": Save failure edge", c.pos(bad), "effect after a failed Save: "+bad.String())
			} else if sfn != root {
				// and the caller does nothing either once the phase reported the failure
				fe2 := core.FailEdges(root, g)
				if bad := c.effectFreeFrom(root, fe2, nil); bad != nil || len(fe2) == 0 {
					r.Fail("C01.2d-failed-save-consumes-nothing", fk(root)+": Save failure edge", c.pos(site), "effect after a failed Save (in the caller of the saving phase)")
				} else {
					r.OK("C01.2d-failed-save-consumes-nothing", fk(root)+": Save failure edge", c.pos(site), "only reply/logging between failed Save and return")
				}
			} else {
				r.OK("C01.2d-failed-save-consumes-nothing", fk(root)+": Save failure edge", c.pos(site), "only reply/logging between failed Save and return")
			}

			// acknowledged seq and broadcast SeqId are loads of lastID after the increment
			c.checkSeqReported(root, myIncr, lastID, seqIdData)
		}
	}

	// (4),(5) store layer
	c.checkC01StoreLayer()
	// round-2 additions
	c.checkRemovalOrder()
	c.checkRehashDecision()
	c.checkAdapterSeqId()
	c.checkSeqReportedBeforeReentry()
	// the deleted/paused flags the removal order relies on are updated without losing a concurrent update
	c.checkAtomicRMW()
}

func posOf(c *Ctx, in ssa.Instruction) string {
	if in == nil {
		return ""
	}
	return " (" + c.pos(in) + ")"
}

// onlyFromProxyLoop: every call chain from the topic actor root to fn goes through a function
// that is called only under Topic.isProxy==true ... structurally: fn (or all its callers,
// transitively, up to the actor root) is not reachable from the actor root once the call edges
// located on isProxy==true branches are removed.
func (c *Ctx) onlyFromProxyLoop(fn *ssa.Function) bool {
	isProxy := c.E().topicField("isProxy")
	runRoots, _ := c.topicActorRoots()
	cg := c.P.CallGraph()
	g := core.BoolGuard("Topic.isProxy", core.IsFieldLoad(isProxy), true)
	seen := map[*ssa.Function]bool{}
	var work []*ssa.Function
	for _, rt := range runRoots {
		seen[rt] = true
		work = append(work, rt)
	}
	for len(work) > 0 {
		f := work[len(work)-1]
		work = work[:len(work)-1]
		if f == fn {
			return false
		}
		n := cg.Nodes[f]
		if n == nil {
			continue
		}
		cut, _ := core.PassEdges(f, g)
		reach := core.ReachBlocks(f, nil, cut)
		for _, e := range n.Out {
			if e.Site == nil || !reach[e.Site.Block()] {
				continue // call site only reachable through the proxy branch
			}
			if !seen[e.Callee.Func] {
				seen[e.Callee.Func] = true
				work = append(work, e.Callee.Func)
			}
		}
	}
	return true
}

// checkSeqReported: MapUpdate with key "seq" and the store to MsgServerData.SeqId take a load of
// lastID and every path from entry reaches them only after the increment.
func (c *Ctx) checkSeqReported(fn *ssa.Function, incr []*ssa.Store, lastID, seqIdData *types.Var) {
	r := c.R
	isIncr := func(in ssa.Instruction) bool {
		for _, s := range incr {
			if in == ssa.Instruction(s) {
				return true
			}
		}
		return false
	}
	n := 0
	c.regionInstrs(fn, func(_ *ssa.Function, in ssa.Instruction) {
		var val ssa.Value
		what := ""
		switch x := in.(type) {
		case *ssa.MapUpdate:
			if core.IsConstString("seq")(x.Key) {
				val, what = x.Value, "reply param \"seq\""
			}
		case *ssa.Store:
			if f, _ := core.FieldOfAddr(x.Addr); f == seqIdData {
				val, what = x.Val, "MsgServerData.SeqId"
			}
		}
		if what == "" {
			return
		}
		n++
		construct := fk(fn) + ": " + what
		// the id handed down to a helper (`ackPublished(msg, seq)`): the argument at its call site
		if _, isP := core.Strip(val).(*ssa.Parameter); isP {
			val = c.rootValue(val)
		}
		isLoad := core.IsFieldLoad(lastID)(val)
		// or the very value the increment stores (`seq := lastID+1` computed once, then `lastID = seq`)
		isIncrVal := false
		for _, s := range incr {
			if core.Strip(val) == core.Strip(s.Val) {
				isIncrVal = true
			}
		}
		r.Check(isLoad || isIncrVal, "C01.2e-reported-seq-is-lastID", construct, c.pos(in), "value is Topic.lastID after the increment", "the id reported to clients is not Topic.lastID: "+val.String())
		// the load itself must come after the increment
		target := func(i ssa.Instruction) bool { return i == in }
		found, _ := core.PathAvoidingX(fn, nil, target, isIncr, nil)
		r.Check(!found, "C01.2f-reported-after-increment", construct, c.pos(in), "reached only after the increment", "the id is reported on a path that has not yet advanced lastID")
		if isLoad {
			// and the load instruction itself is after the increment
			ld := core.Strip(val).(ssa.Instruction)
			found, _ := core.PathAvoidingX(fn, nil, func(i ssa.Instruction) bool { return i == ld }, isIncr, nil)
			r.Check(!found, "C01.2f-reported-after-increment", construct+" (load)", c.pos(in), "lastID loaded after the increment", "lastID is read for reporting before it was advanced")
		}
	})
	r.Check(n >= 2, "C01.2e-reported-seq-is-lastID", fk(fn)+": reports seq to publisher and recipients", "-", "both reporting sites present", "the acknowledged 'seq' parameter or the broadcast SeqId is no longer set in the saving function")
}

func (c *Ctx) checkC01StoreLayer() {
	r := c.R
	upd := c.method("server/db", "Adapter", "TopicUpdateOnMessage")
	msgSave := c.method("server/db", "Adapter", "MessageSave")
	fns := c.funcsCalling(msgSave, "server/store")
	r.Floor("C01.4-highwater-before-row", 1)
	r.Floor("C01.5-no-error-after-row-committed", 1)
	for _, fn := range fns {
		r.Func(fk(fn))
		for _, site := range core.CallsTo(fn, msgSave) {
			r.CallSites++
			construct := fk(fn) + ": adp.MessageSave"
			ups := core.CallsTo(fn, upd)
			if len(ups) == 0 {
				r.Fail("C01.4-highwater-before-row", construct, c.pos(site), "message row is inserted by a function that never bumps the topic's SeqId high-water mark")
				continue
			}
			var gs []core.Guard
			for _, u := range ups {
				gs = append(gs, successGuard(u))
			}
			ok, _ := core.GuardedBy(fn, site, gs...)
			r.Check(ok, "C01.4-highwater-before-row", construct, c.pos(site),
				"row insert reachable only through err==nil of TopicUpdateOnMessage", "message row can be inserted without the topic high-water mark having been bumped successfully first (a crash would allow the number to be re-issued)")
			// same message object
			same := false
			for _, u := range ups {
				ua, sa := core.CallArgs(u.Common()), core.CallArgs(site.Common())
				if len(ua) >= 3 && len(sa) >= 2 && core.Strip(ua[2]) == core.Strip(sa[1]) {
					same = true
				}
			}
			r.Check(same, "C01.4b-same-message", construct, c.pos(site), "both adapter calls receive the same *types.Message", "high-water mark and row insert are given different message objects")

			// (5) after success of MessageSave (its error result nil, however it is tested later), every
			// return yields a nil error
			errIdx := errIndex(fn.Signature)
			callV, isV := site.(ssa.Value)
			if errIdx < 0 || !isV {
				continue
			}
			var errV ssa.Value = callV
			if site.Common().Signature().Results().Len() > 1 {
				errV = nil
				if refs := callV.Referrers(); refs != nil {
					for _, ref := range *refs {
						if ex, ok := ref.(*ssa.Extract); ok && ex.Index == errIndex(site.Common().Signature()) {
							errV = ex
						}
					}
				}
			}
			if errV == nil {
				r.Fail("C01.5-no-error-after-row-committed", fk(fn)+": error of adp.MessageSave", c.pos(site), "the error result of the row insert is not used: undecided")
				continue
			}
			nRet := 0
			var badRet ssa.Instruction
			badVal := ""
			wr := core.NilWalkAfterWith(fn, site.(ssa.Instruction), core.NilFacts{errV: true}, nil, nil, func(in ssa.Instruction, f core.NilFacts) {
				ret, ok := in.(*ssa.Return)
				if !ok {
					return
				}
				nRet++
				if k, n := core.Nilness(ret.Results[errIdx], f); !(k && n) {
					badRet, badVal = ret, describeVal(ret.Results[errIdx])
				}
			})
			construct2 := fk(fn) + ": every return after adp.MessageSave succeeded yields a nil error"
			r.Check(badRet == nil && nRet > 0 && !wr.Overflow, "C01.5-no-error-after-row-committed", construct2, c.pos(site), "",
				"returns a possibly non-nil error ("+badVal+") after the message row was committed"+posOf(c, badRet)+": the topic does not advance lastID and re-issues the same id")
		}
	}
}

func describeVal(v ssa.Value) string {
	switch x := v.(type) {
	case *ssa.Call:
		if f := core.CalleeOf(&x.Call); f != nil {
			return "result of " + f.Name()
		}
	case *ssa.Extract:
		return describeVal(x.Tuple)
	case *ssa.Phi:
		return "phi"
	}
	return v.Name()
}
