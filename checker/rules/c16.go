package rules

import (
	"fmt"
	"go/token"
	"go/types"
	"sort"
	"strings"

	"golang.org/x/tools/go/ssa"

	"verifchk/core"
)

func init() { register("C16", checkC16) }

func checkC16(c *Ctx) {
	r := c.R
	r.Explanation = "Structural necessary conditions for the out-of-band file endpoints: (1) handler gates: media Handler.Download / Handler.Upload and the store's upload bookkeeping are cut off unless the HTTP method test, checkAPIKey()==valid, authHttpRequest err==nil, challenge==nil and a non-zero uid (or topic==\"newacc\" for uploads) passed; each refusal edge is effect-free with respect to the media handler and the store; (2) the body-size limiter (http.MaxBytesReader) is installed, when a limit is configured, before any call that can parse the request body (FormValue/FormFile/ParseForm/ParseMultipartForm, directly or inside a helper given the request); (3) forced download: the Content-Disposition: attachment header is set behind a disjunction whose string tests include html, xml, application/ and text/; (4) path provenance: in the file-system handler the path opened for download derives from the stored file record's Location and never from the URL; GetIdFromUrl parses only under dir == \"\" or dir == the serve path and uses path.Base-like last element; (5) linking: in messagesMapper.Save every return after the message row was stored is reached only after the attachment-link decision (len(attachments) test), and the description/account paths call Files.LinkAttachments; the garbage collector deletes from storage exactly the locations returned by the adapter after its success."
	r.NotDecided = []string{"byte equality of downloads and MIME sniffing", "the SQL of the unused-file query", "history properties of garbage collection"}
	r.Trusted = []string{"go/types, go/ssa", "net/http request parsing semantics: FormValue/FormFile/ParseMultipartForm read the body"}

	c.checkFileHandlerGates()
	c.checkBodyLimiter()
	c.checkForcedDownload()
	c.checkPathProvenance()
	c.checkAttachmentLinking()
	c.checkForcedDownloadUnderMime()
	c.checkAvatarLinkOnlyWithDesc()
	c.checkAvatarLinkedAfterWrite()
	c.checkAttachmentLoopVisitsEveryEntry()
	c.checkDeleteLoopVisitsEveryLocation()
	c.checkLinkOwnerIsOneOfTopicOrUser()
	c.checkHeadersBehindGates()
}

func isHTTPHandler(fn *ssa.Function) bool {
	return fn.Parent() == nil && isHTTPHandlerSig(fn.Signature)
}

func (c *Ctx) checkFileHandlerGates() {
	r := c.R
	download := c.method("server/media", "Handler", "Download")
	upload := c.method("server/media", "Handler", "Upload")
	checkKey := c.fn("server", "checkAPIKey")
	authReq := c.fn("server", "authHttpRequest")
	isZero := c.method("server/store/types", "Uid", "IsZero")
	r.Floor("C16.1-handler-gates", 8)
	for _, spec := range []struct {
		sink    *types.Func
		name    string
		methods []string
	}{{download, "Handler.Download", []string{"GET", "HEAD"}}, {upload, "Handler.Upload", []string{"POST", "PUT", "HEAD"}}} {
		for _, sfn := range c.funcsCalling(spec.sink, "server") {
			// the HTTP handler: the function that calls the media handler, or - when the handler was
			// split into phases - the nearest HTTP handler up the chain of sole callers
			fn := c.climbUntil(sfn, isHTTPHandler)
			if !isHTTPHandler(fn) {
				continue
			}
			r.Func(fk(fn))
			for _, s := range core.CallsTo(sfn, spec.sink) {
				sink := s.(ssa.Instruction)
				base := fmt.Sprintf("%s: %s", fk(fn), spec.name)
				// API key
				gKey := core.BoolGuard("checkAPIKey valid", func(v ssa.Value) bool {
					ex, ok := v.(*ssa.Extract)
					return ok && ex.Index == 0 && core.IsCallTo(checkKey)(ex.Tuple)
				}, true)
				ok, cnt := core.GuardedBy(sfn, sink, gKey)
				r.Check(ok && cnt[0] > 0, "C16.1-handler-gates", base+" / API key valid", c.pos(sink), "", "the media handler is reached without a valid API key")
				// credentials
				var auths []ssa.CallInstruction
				for _, a := range c.regionCallsTo(fn, authReq) {
					auths = append(auths, a)
				}
				if len(auths) == 0 {
					r.Fail("C16.1-handler-gates", base+" / credentials", c.pos(sink), "the handler no longer authenticates the request")
					continue
				}
				var gErr, gChal []core.Guard
				for _, a := range auths {
					gErr = append(gErr, core.NilGuard("auth err==nil", errResultOf(a, 2), true))
					gChal = append(gChal, core.NilGuard("challenge==nil", errResultOf(a, 1), true))
				}
				ok, _ = core.GuardedBy(sfn, sink, gErr...)
				r.Check(ok, "C16.1-handler-gates", base+" / credentials valid", c.pos(sink), "", "the media handler is reached although authentication failed")
				ok, _ = core.GuardedBy(sfn, sink, gChal...)
				r.Check(ok, "C16.1-handler-gates", base+" / no pending challenge", c.pos(sink), "", "the media handler is reached while a multi-step challenge is pending")
				gUid := core.BoolGuard("!uid.IsZero()", core.IsCallTo(isZero), false)
				gs := []core.Guard{gUid}
				if spec.sink == upload {
					gs = append(gs, core.Guard{Name: "topic==newacc", Match: func(a core.CondAtom) (bool, bool) {
						if a.Op != token.EQL {
							return false, false
						}
						if core.IsConstString("newacc")(a.X) || core.IsConstString("newacc")(a.Y) {
							return true, true
						}
						return false, false
					}})
				}
				ok, cnt = core.GuardedBy(sfn, sink, gs...)
				r.Check(ok && cnt[0] > 0, "C16.1-handler-gates", base+" / authenticated user", c.pos(sink), "", "the media handler is reached for an unauthenticated request")
				// method: the sink is cut off unless Method equals one of the implemented ones
				var gm []core.Guard
				for _, m := range spec.methods {
					mm := m
					gm = append(gm, core.Guard{Name: "Method==" + mm, Match: func(a core.CondAtom) (bool, bool) {
						if a.Op != token.EQL {
							return false, false
						}
						if core.IsConstString(mm)(a.X) || core.IsConstString(mm)(a.Y) {
							return true, true
						}
						return false, false
					}})
				}
				ok, _ = core.GuardedBy(sfn, sink, gm...)
				r.Check(ok, "C16.1-handler-gates", base+" / implemented method", c.pos(sink), "", "the media handler is reached for an HTTP method the endpoint does not implement")
				// refusal edges are effect-free with respect to media handler and store
				fe := core.FailEdges(fn, append([]core.Guard{gKey}, gErr...)...)
				isEffect := func(in ssa.Instruction) bool {
					if _, isStore := c.isStoreCall(in); isStore {
						return true
					}
					if ci, ok := in.(ssa.CallInstruction); ok {
						if f := core.CalleeOf(ci.Common()); f == download || f == upload {
							return true
						}
					}
					return false
				}
				found, w := core.PathFromEdgeAvoiding(fn, fe, isEffect, nil, nil)
				r.Check(!found, "C16.1b-refusal-effect-free", base+" / refused requests touch neither storage nor store", c.pos(sink), "", "a refused request still reaches the media handler or the store"+posOf(c, w))
			}
		}
	}
}

// bodyParsers: calls in fn that can read the request body of req.
func (c *Ctx) bodyParsingCalls(fn *ssa.Function, depth int, seen map[*ssa.Function]bool) []ssa.Instruction {
	var out []ssa.Instruction
	core.AllInstrs(fn, func(in ssa.Instruction) {
		call, ok := in.(*ssa.Call)
		if !ok {
			return
		}
		name := calleeFullName(call)
		switch name {
		case "(*net/http.Request).FormValue", "(*net/http.Request).FormFile", "(*net/http.Request).ParseForm", "(*net/http.Request).ParseMultipartForm", "(*net/http.Request).PostFormValue", "(*net/http.Request).MultipartReader":
			out = append(out, in)
			return
		}
		cal := call.Call.StaticCallee()
		if cal == nil || cal.Blocks == nil || depth >= 2 || seen[cal] || !strings.HasPrefix(core.FuncKey(cal), "server") {
			return
		}
		takesReq := false
		for _, a := range call.Call.Args {
			if a.Type().String() == "*net/http.Request" {
				takesReq = true
			}
		}
		if !takesReq {
			return
		}
		seen[cal] = true
		if len(c.bodyParsingCalls(cal, depth+1, seen)) > 0 {
			out = append(out, in)
		}
	})
	return out
}

func (c *Ctx) checkBodyLimiter() {
	r := c.R
	upload := c.method("server/media", "Handler", "Upload")
	maxF := c.globalStructField("server", "globals", "maxFileUploadSize")
	r.Floor("C16.2-limiter-before-parse", 2)
	for _, sfn := range c.funcsCalling(upload, "server") {
		fn := c.climbUntil(sfn, isHTTPHandler)
		if !isHTTPHandler(fn) {
			continue
		}
		r.Func(fk(fn))
		isLimiter := func(in ssa.Instruction) bool {
			call, ok := in.(*ssa.Call)
			return ok && calleeFullName(call) == "net/http.MaxBytesReader"
		}
		// the limiter's result must be stored into req.Body
		installed := false
		core.AllInstrs(fn, func(in ssa.Instruction) {
			if st, ok := in.(*ssa.Store); ok {
				if f, _ := core.FieldOfAddr(st.Addr); f != nil && f.Name() == "Body" && calleeFullName(core.Strip(st.Val)) == "net/http.MaxBytesReader" {
					installed = true
				}
			}
		})
		r.Check(installed, "C16.2-limiter-before-parse", fk(fn)+": req.Body = http.MaxBytesReader(..)", c.P.Pos(fn.Pos()), "", "the upload handler no longer installs a body size limiter")
		// when no limit is configured there is nothing to install: cut that edge
		gNoLimit := core.LessGuard("maxFileUploadSize>0", core.IsConstInt(0), core.IsFieldLoad(maxF), false)
		cut, _ := core.PassEdges(fn, gNoLimit)
		for _, p := range c.bodyParsingCalls(fn, 0, map[*ssa.Function]bool{}) {
			found, _ := core.PathAvoiding(fn, nil, func(in ssa.Instruction) bool { return in == p }, isLimiter, cut)
			r.Check(!found, "C16.2-limiter-before-parse", fmt.Sprintf("%s: %s reads the body only after the limiter", fk(fn), describeCall(p)), c.pos(p), "",
				"the request body can be parsed (and buffered) before the size limiter is installed: an oversized upload bypasses the configured limit")
		}
	}
}

func (c *Ctx) checkForcedDownload() {
	r := c.R
	download := c.method("server/media", "Handler", "Download")
	r.Floor("C16.3-forced-download", 1)
	for _, fn := range c.funcsCalling(download, "server") {
		if !isHTTPHandler(fn) {
			continue
		}
		r.Func(fk(fn))
		// the Set("Content-Disposition", "attachment") call
		var set ssa.Instruction
		core.AllInstrs(fn, func(in ssa.Instruction) {
			if call, ok := in.(*ssa.Call); ok && calleeFullName(call) == "(net/http.Header).Set" {
				if core.IsConstString("Content-Disposition")(call.Call.Args[1]) {
					set = in
				}
			}
		})
		if set == nil {
			r.Fail("C16.3-forced-download", fk(fn)+": Content-Disposition: attachment", "-", "the download handler never forces a download")
			continue
		}
		// constants used in string tests of the MIME type anywhere in the function
		have := map[string]bool{}
		c.withCallees(fn, 2, func(_ *ssa.Function, in ssa.Instruction, _ ssa.Instruction) {
			call, ok := in.(*ssa.Call)
			if !ok {
				return
			}
			n := calleeFullName(call)
			if n != "strings.Contains" && n != "strings.HasPrefix" {
				return
			}
			if f, _ := core.LoadedField(core.Strip(call.Call.Args[0])); f == nil || f.Name() != "MimeType" {
				return
			}
			for _, k := range stringConstsOf(call.Call.Args[1]) {
				have[k] = true
			}
		})
		var missing []string
		for _, need := range []string{"html", "xml", "application/", "text/"} {
			if !have[need] {
				missing = append(missing, need)
			}
		}
		sort.Strings(missing)
		r.Check(len(missing) == 0, "C16.3-forced-download", fk(fn)+": active content types force a download", c.pos(set), "", fmt.Sprintf("the forced-download test no longer covers: %v", missing))
		// and the header is set on the edge where any of those tests is true: cut the `false` edges of all
		// MIME tests and the asatt query => the Set call must still be reachable; cut the true edges => unreachable
		gMime := core.Guard{Name: "mime test", Match: func(a core.CondAtom) (bool, bool) {
			if a.Op != token.ILLEGAL {
				return false, false
			}
			n := calleeFullName(a.Val)
			if n == "strings.Contains" || n == "strings.HasPrefix" {
				return true, true
			}
			return false, false
		}}
		gAsAtt := core.Guard{Name: "asatt", Match: func(a core.CondAtom) (bool, bool) {
			if a.Op != token.ILLEGAL {
				return false, false
			}
			if ex, ok := a.Val.(*ssa.Extract); ok && calleeFullName(ex.Tuple) == "strconv.ParseBool" {
				return true, true
			}
			if _, isPhi := a.Val.(*ssa.Phi); isPhi {
				return true, true
			}
			return false, false
		}}
		ok, _ := core.GuardedBy(fn, set, gMime, gAsAtt)
		r.Check(ok, "C16.3-forced-download", fk(fn)+": header set only when requested or for active content", c.pos(set), "", "")
	}
}

func (c *Ctx) checkPathProvenance() {
	r := c.R
	r.Floor("C16.4-path-provenance", 2)
	// fs handler Download: os.Open argument derives from the FileDef record's Location
	dl := c.ssaMethod("server/media/fs", "fshandler", "Download")
	r.Func(fk(dl))
	locF := c.field("server/store/types", "FileDef", "Location")
	n := 0
	core.AllInstrs(dl, func(in ssa.Instruction) {
		call, ok := in.(*ssa.Call)
		if !ok || calleeFullName(call) != "os.Open" {
			return
		}
		n++
		arg := call.Call.Args[0]
		fromRec := core.IsFieldLoad(locF)(arg)
		fromURL := derivesAny(arg, func(v ssa.Value) bool { _, isP := v.(*ssa.Parameter); return isP && v.Type().String() == "string" })
		r.Check(fromRec && !fromURL, "C16.4-path-provenance", fk(dl)+": os.Open(<stored record>.Location)", c.pos(call), "", "the file opened for download is named by the URL rather than by the stored upload record")
	})
	r.Check(n > 0, "C16.4-path-provenance", fk(dl)+": opens the stored location", "-", "", "the file-system handler no longer opens the stored location")
	// GetIdFromUrl
	g := c.ssaFn("server/media", "GetIdFromUrl")
	r.Func(fk(g))
	usesSplit := false
	var parse ssa.Instruction
	core.AllInstrs(g, func(in ssa.Instruction) {
		call, ok := in.(*ssa.Call)
		if !ok {
			return
		}
		if calleeFullName(call) == "path.Split" {
			usesSplit = true
		}
		if f := core.CalleeOf(&call.Call); f != nil && (f.Name() == "ParseUid" || f.Name() == "ParseUid32") {
			parse = in
		}
	})
	r.Check(usesSplit, "C16.4-path-provenance", fk(g)+": directory and last element separated by path.Split", c.P.Pos(g.Pos()), "", "the file id is no longer taken from the last path element")
	if parse != nil {
		// the parse is behind dir == "" or dir == serveUrl
		gDir := core.Guard{Name: "dir=='' or dir==serveUrl", Match: func(a core.CondAtom) (bool, bool) {
			if a.Op != token.EQL {
				return false, false
			}
			isDir := func(v ssa.Value) bool {
				ex, ok := v.(*ssa.Extract)
				return ok && ex.Index == 0 && calleeFullName(ex.Tuple) == "path.Split"
			}
			if isDir(a.X) || isDir(a.Y) {
				return true, true
			}
			return false, false
		}}
		ok, cnt := core.GuardedBy(g, parse, gDir)
		r.Check(ok && cnt[0] > 0, "C16.4-path-provenance", fk(g)+": id parsed only for the serve directory", c.pos(parse), "", "a URL outside the serve path (e.g. with traversal segments) can name an upload")
	} else {
		r.Fail("C16.4-path-provenance", fk(g)+": id parsed from the last element", "-", "no ParseUid call found: undecided")
	}
}

func (c *Ctx) checkAttachmentLinking() {
	r := c.R
	msgSave := c.method("server/db", "Adapter", "MessageSave")
	link := c.method("server/db", "Adapter", "FileLinkAttachments")
	r.Floor("C16.5-attachments-linked", 3)
	for _, fn := range c.funcsCalling(msgSave, "server/store") {
		r.Func(fk(fn))
		for _, site := range core.CallsTo(fn, msgSave) {
			// the slice parameter with attachment URLs
			var attParam *ssa.Parameter
			for _, p := range fn.Params {
				if sl, ok := p.Type().Underlying().(*types.Slice); ok {
					if b, ok := sl.Elem().Underlying().(*types.Basic); ok && b.Kind() == types.String {
						attParam = p
					}
				}
			}
			if attParam == nil {
				r.Fail("C16.5-attachments-linked", fk(fn)+": attachment list parameter", c.pos(site), "undecided: no []string parameter")
				continue
			}
			// the decision: an If testing len(attachmentURLs)
			// the linking phase split off into a helper that is handed the list and links (`linkMessageAttachments(msg, urls)`)
			var linkHelpers []*ssa.Function
			isLinkPhase := func(in ssa.Instruction) bool {
				call, ok := in.(*ssa.Call)
				if !ok {
					return false
				}
				h := call.Call.StaticCallee()
				if h == nil || h == fn || !core.InModule(h) || len(h.Blocks) == 0 || len(core.CallsTo(h, link)) == 0 {
					return false
				}
				for _, a := range call.Call.Args {
					if core.Strip(a) == ssa.Value(attParam) {
						return true
					}
				}
				return false
			}
			core.AllInstrs(fn, func(in ssa.Instruction) {
				if isLinkPhase(in) {
					linkHelpers = append(linkHelpers, in.(*ssa.Call).Call.StaticCallee())
				}
			})
			isDecision := func(in ssa.Instruction) bool {
				if isLinkPhase(in) {
					return true
				}
				ifi, ok := in.(*ssa.If)
				if !ok {
					return false
				}
				a := core.NormCond(ifi.Cond)
				for _, v := range []ssa.Value{a.X, a.Y} {
					// len(attachmentURLs), or len of a list derived from it (ids extracted by a helper)
					if v != nil && isLenOf(func(x ssa.Value) bool {
						return core.Strip(x) == ssa.Value(attParam) || derivesAny(x, func(y ssa.Value) bool { return y == ssa.Value(attParam) })
					})(v) {
						return true
					}
				}
				return false
			}
			// on the success paths of the row insert (its error nil, however that is tested later)
			found := false
			var w ssa.Instruction
			if errV := errValueOf(site); errV != nil {
				wr := core.NilWalkAfterWith(fn, site.(ssa.Instruction), core.NilFacts{errV: true}, nil, isDecision, func(in ssa.Instruction, _ core.NilFacts) {
					if core.IsReturn(in) {
						found, w = true, in
					}
				})
				if wr.Overflow {
					found = true
				}
			} else {
				found = true
			}
			r.Check(!found, "C16.5-attachments-linked", fk(fn)+": every return after the row was stored passes the attachment-link decision", c.pos(site), "",
				"after the message row was stored the function can return"+posOf(c, w)+" without considering its attachments: the uploads stay unlinked and are garbage-collected while the message exists")
			// and the link call is reachable from the decision's non-empty edge
			links := core.CallsTo(fn, link)
			for _, h := range linkHelpers {
				links = append(links, core.CallsTo(h, link)...)
			}
			r.Check(len(links) > 0, "C16.5-attachments-linked", fk(fn)+": calls adp.FileLinkAttachments", c.pos(site), "", "published attachments are never linked")
			// linked to the new message's id
			for _, l := range links {
				args := core.CallArgs(l.Common())
				okID := len(args) >= 4 && derivesAny(args[3], func(v ssa.Value) bool {
					call, ok := v.(*ssa.Call)
					return ok && core.CalleeOf(&call.Call) != nil && core.CalleeOf(&call.Call).Name() == "Uid"
				})
				r.Check(okID, "C16.5-attachments-linked", fk(fn)+": linked to the saved message's id", c.pos(l), "", "attachments are linked to something other than the saved message")
			}
		}
	}
	// description / account paths
	filesLink := c.E().storeIface("FilePersistenceInterface", "LinkAttachments")
	callers := c.funcsCalling(filesLink, "server")
	var names []string
	for _, f := range callers {
		names = append(names, fk(f))
		r.Func(fk(f))
	}
	sort.Strings(names)
	r.Check(len(callers) >= 3, "C16.5b-avatar-linked", "Files.LinkAttachments is called by the description, new-group and new-account paths", "-", fmt.Sprintf("%v", names), fmt.Sprintf("only %d callers of Files.LinkAttachments remain: %v", len(callers), names))
	// garbage collection
	delUnused := c.method("server/db", "Adapter", "FileDeleteUnused")
	mhDelete := c.method("server/media", "Handler", "Delete")
	for _, fn := range c.funcsCalling(delUnused, "server/store") {
		r.Func(fk(fn))
		for _, site := range core.CallsTo(fn, delUnused) {
			dels := core.CallsTo(fn, mhDelete)
			r.Check(len(dels) > 0, "C16.5c-gc-exact", fk(fn)+": deletes stored bytes", c.pos(site), "", "the garbage collector no longer removes the stored bytes")
			for _, d := range dels {
				args := core.CallArgs(d.Common())
				same := len(args) >= 2 && core.Derives(args[1], errResultOf(site, 0), true)
				ok, _ := core.GuardedBy(fn, d.(ssa.Instruction), successGuard(site))
				r.Check(same && ok, "C16.5c-gc-exact", fk(fn)+": media Delete(<locations returned by the adapter>) after its success", c.pos(d), "", "the garbage collector removes files other than those the adapter reported as unused, or does so although the adapter failed")
			}
		}
	}
}
