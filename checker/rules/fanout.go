package rules

import (
	"fmt"
	"go/types"

	"golang.org/x/tools/go/ssa"

	"verifchk/core"
)

// fanout describes the topic's fan-out loop: the function that ranges over Topic.sessions and
// queues a per-recipient copy.
type fanout struct {
	fn    *ssa.Function
	sink  ssa.Instruction // sess.queueOut(copy)
	copyV *ssa.Call       // msg.copy()
	prep  *ssa.Call       // prepareBroadcastableMessage(copy, uid, isChanSub)
}

func (c *Ctx) findFanout() fanout {
	sessionsF := c.E().topicField("sessions")
	queueOut := c.method("server", "Session", "queueOut")
	copyM := c.method("server", "ServerComMessage", "copy")
	prep := c.method("server", "Topic", "prepareBroadcastableMessage")
	var out []fanout
	for _, fn := range c.P.ModFuncs {
		if !core.InPkg(fn, "server") || !isPtrToNamedRecv(fn, "Topic") {
			continue
		}
		ranges := false
		core.AllInstrs(fn, func(in ssa.Instruction) {
			if rg, ok := in.(*ssa.Range); ok && core.IsFieldLoad(sessionsF)(rg.X) {
				ranges = true
			}
		})
		cs := core.CallsTo(fn, copyM)
		qs := core.CallsTo(fn, queueOut)
		ps := core.CallsTo(fn, prep)
		if !ranges || len(cs) != 1 || len(ps) != 1 {
			continue
		}
		for _, q := range qs {
			args := core.CallArgs(q.Common())
			if len(args) == 2 && core.Strip(args[1]) == ssa.Value(cs[0].(*ssa.Call)) {
				out = append(out, fanout{fn, q.(ssa.Instruction), cs[0].(*ssa.Call), ps[0].(*ssa.Call)})
			}
		}
	}
	if len(out) != 1 {
		c.lost(fmt.Sprintf("fan-out loop (range over Topic.sessions queueing msg.copy()): found %d", len(out)))
	}
	return out[0]
}

// fanoutFiltered: from the branch edges the sink is unreachable once the pass edges of guards are cut.
func (c *Ctx) fanoutFiltered(fo fanout, kind string, guards ...core.Guard) (bool, []int) {
	return c.fanoutFilteredFrom(fo, c.fanoutBranchGuard(kind), guards...)
}

func (c *Ctx) fanoutBranchGuard(kind string) core.Guard {
	presF := c.field("server", "ServerComMessage", "Pres")
	infoF := c.field("server", "ServerComMessage", "Info")
	switch kind {
	case "pres":
		return core.NilGuard("msg.Pres!=nil", core.IsFieldLoad(presF), false)
	case "info":
		return core.NilGuard("msg.Info!=nil", core.IsFieldLoad(infoF), false)
	}
	return core.NilGuard("msg.Info==nil", core.IsFieldLoad(infoF), true)
}

// fanoutFilteredFrom: from the pass edges of `start` the sink is unreachable once the pass edges
// of the guards are cut. When the per-recipient decision was extracted into a predicate (the sink
// is behind `if pred(...)`), the same is decided inside the predicate: from the start edges no
// return of the accepting outcome is reachable without a pass edge (parameters substituted).
func (c *Ctx) fanoutFilteredFrom(fo fanout, start core.Guard, guards ...core.Guard) (bool, []int) {
	edges, _ := core.GuardEdges(fo.fn, start)
	back := loopBackEdges(fo.fn)
	if len(edges) > 0 {
		cut, cnt := core.PassEdges(fo.fn, guards...)
		for e := range back {
			cut[e] = true
		}
		found, _ := core.PathFromEdgeAvoiding(fo.fn, edges, func(in ssa.Instruction) bool { return in == fo.sink }, nil, cut)
		return !found, cnt
	}
	// extracted decision predicate
	startsOf := func(fn *ssa.Function) map[core.Edge]bool {
		pe, _ := core.GuardEdges(fn, start)
		return pe
	}
	for _, b := range fo.fn.Blocks {
		ifi, ok := b.Instrs[len(b.Instrs)-1].(*ssa.If)
		if !ok {
			continue
		}
		a := core.NormCond(ifi.Cond)
		call, isCall := a.Val.(*ssa.Call)
		if !isCall || !core.InModule(call.Call.StaticCallee()) {
			continue
		}
		// which outcome leads to the sink?
		reaches := func(idx int) bool {
			cut := map[core.Edge]bool{{From: b, Idx: 1 - idx}: true}
			for e := range back {
				cut[e] = true
			}
			found, _ := core.PathFromEdgeAvoiding(fo.fn, map[core.Edge]bool{{From: b, Idx: idx}: true}, func(in ssa.Instruction) bool { return in == fo.sink }, nil, cut)
			return found
		}
		r0, r1 := reaches(0), reaches(1)
		if r0 == r1 {
			continue
		}
		// the sink is reached on edge 0 (cond true) or 1; cond == call XOR Negated
		acceptVal := r0 != a.Negated
		cls := 1
		if !acceptVal {
			cls = -1
		}
		// the sink must be reachable only through this test
		cutBoth := map[core.Edge]bool{{From: b, Idx: 0}: true, {From: b, Idx: 1}: true}
		if core.ReachBlocks(fo.fn, nil, cutBoth)[fo.sink.Block()] {
			continue
		}
		if ok, cnt := core.CalleeImplies(call, 0, "bool", cls, 0, guards, startsOf); ok {
			return true, cnt
		}
	}
	return false, make([]int, len(guards))
}

func (c *Ctx) pssdUid() core.VPred {
	return core.IsFieldLoad(c.field("server", "perSessionData", "uid"))
}

// gUserIsReader: `userIsReader(pssd.uid)` or, when that helper was inlined, IsReader() on the
// want&given pair returned by getPerUserAcs(pssd.uid).
func (c *Ctx) gUserIsReader(want bool) core.Guard {
	uir := c.P.Method("server", "Topic", "userIsReader")
	gpa := c.P.Method("server", "Topic", "getPerUserAcs")
	isReader := c.E().modeMethod("IsReader")
	if uir == nil && gpa == nil {
		c.lost("method server.Topic.userIsReader / getPerUserAcs")
	}
	return core.BoolGuard("userIsReader(pssd.uid)", func(v ssa.Value) bool {
		if uir != nil && core.IsCallTo(uir, nil, c.pssdUid())(v) {
			return true
		}
		if gpa == nil || !core.IsCallTo(isReader)(v) {
			return false
		}
		recv := core.Strip(core.Strip(v).(*ssa.Call).Call.Args[0])
		b, ok := recv.(*ssa.BinOp)
		if !ok || !c.pairCall(recv) {
			return false
		}
		ex := core.Strip(b.X).(*ssa.Extract)
		return core.IsCallTo(gpa, nil, c.pssdUid())(ex.Tuple)
	}, want)
}

func (c *Ctx) gIsChanSub(want bool) core.Guard {
	return core.BoolGuard("pssd.isChanSub", core.IsFieldLoad(c.field("server", "perSessionData", "isChanSub")), want)
}

// checkFanoutCommon: skip-session and per-recipient copy rules (shared by C02, C09, C10).
func (c *Ctx) checkFanoutCommon(prefix string) fanout {
	r := c.R
	fo := c.findFanout()
	r.Func(fk(fo.fn))
	sidF := c.E().sessionField("sid")
	skipF := c.field("server", "ServerComMessage", "SkipSid")
	isMux := c.method("server", "Session", "isMultiplex")
	// ordinary sessions: cut `sid != SkipSid` => sink unreachable from the non-multiplex edge
	okSkip, cnt := c.fanoutFilteredFrom(fo, core.BoolGuard("!isMultiplex", core.IsCallTo(isMux, isRangeKey), false),
		core.EqGuard("sid!=SkipSid", core.IsFieldLoad(sidF), core.IsFieldLoad(skipF), false))
	r.Check(okSkip && cnt[0] > 0, prefix+"-skip-session", fk(fo.fn)+": never to the session named by SkipSid", c.pos(fo.sink), "", "the originating / no-echo session can receive its own broadcast")
	// copy is per recipient: the copy call is inside the loop (reachable from the range's next) and
	// prepare is applied to it with the recipient's uid and channel flag before queueing
	args := core.CallArgs(&fo.prep.Call)
	okArgs := len(args) == 4 && core.Strip(args[1]) == ssa.Value(fo.copyV) && c.pssdUid()(args[2]) && core.IsFieldLoad(c.field("server", "perSessionData", "isChanSub"))(args[3])
	r.Check(okArgs, prefix+"-per-recipient-copy", fk(fo.fn)+": prepareBroadcastableMessage(copy, pssd.uid, pssd.isChanSub)", c.pos(fo.prep), "", "the recipient-specific fix-up is not applied to the queued copy with the recipient's own uid / channel flag")
	miss, _ := core.PathAvoiding(fo.fn, fo.copyV, func(in ssa.Instruction) bool { return in == fo.sink }, func(in ssa.Instruction) bool { return in == ssa.Instruction(fo.prep) }, nil)
	r.Check(!miss, prefix+"-per-recipient-copy", fk(fo.fn)+": copy -> prepare -> queueOut", c.pos(fo.sink), "", "a copy can be queued without the recipient-specific fix-up")
	// the queued value is the copy, not the shared message (by construction of findFanout), and the
	// copy is taken from the function's message parameter
	recv := core.CallArgs(&fo.copyV.Call)[0]
	_, isP := core.Strip(recv).(*ssa.Parameter)
	r.Check(isP, prefix+"-per-recipient-copy", fk(fo.fn)+": copy of the broadcast message parameter", c.pos(fo.copyV), "", "the copy is not taken from the message being broadcast")
	return fo
}

func (c *Ctx) checkFanoutInfo(prefix string, fo fanout) {
	r := c.R
	srcF := c.field("server", "MsgServerInfo", "Src")
	whatF := c.field("server", "MsgServerInfo", "What")
	fromF := c.field("server", "MsgServerInfo", "From")
	gSrc := core.EqGuard("Info.Src!=\"\"", core.IsFieldLoad(srcF), core.IsConstString(""), false)
	ok1, c1 := c.fanoutFiltered(fo, "info", gSrc, c.gUserIsReader(true))
	r.Check(ok1 && c1[1] > 0, prefix+"-info-filter", fk(fo.fn)+": {info} only to readers (or routed from another topic)", c.pos(fo.sink), "", "a read/recv/typing notification can reach a session of a user without read permission")
	ok2, c2 := c.fanoutFiltered(fo, "info", gSrc, c.gIsChanSub(false))
	r.Check(ok2 && c2[1] > 0, prefix+"-info-filter", fk(fo.fn)+": {info} never to channel readers", c.pos(fo.sink), "", "a read/recv/typing notification can reach a channel reader's session")
	uidUserId := c.method("server/store/types", "Uid", "UserId")
	gNotKp := core.EqGuard("What!=\"kp\"", core.IsFieldLoad(whatF), core.IsConstString("kp"), false)
	gNotSelf := core.EqGuard("From!=recipient", core.IsFieldLoad(fromF), core.IsCallTo(uidUserId, c.pssdUid()), false)
	ok3, c3 := c.fanoutFiltered(fo, "info", gNotKp, gNotSelf)
	r.Check(ok3 && c3[0] > 0 && c3[1] > 0, prefix+"-info-filter", fk(fo.fn)+": typing notes never to the typist's own sessions", c.pos(fo.sink), "", "a key-press notification can reach another session of the same user")
}

func (c *Ctx) checkFanoutData(prefix string, fo fanout) {
	r := c.R
	ok, cnt := c.fanoutFiltered(fo, "data", c.gUserIsReader(true), c.gIsChanSub(true))
	r.Check(ok && cnt[0] > 0 && cnt[1] > 0, prefix+"-data-filter", fk(fo.fn)+": {data} only to readers of the attached user or channel readers", c.pos(fo.sink), "",
		"a {data} copy can reach a session attached for a user without read permission (or the permission of a different user is consulted)")
}

func (c *Ctx) checkFanoutPres(prefix string, fo fanout) {
	r := c.R
	ppf := c.method("server", "Topic", "passesPresenceFilters")
	g := core.BoolGuard("passesPresenceFilters(pres, pssd.uid)", core.IsCallTo(ppf, nil, nil, c.pssdUid()), true)
	ok, cnt := c.fanoutFiltered(fo, "pres", g)
	r.Check(ok && cnt[0] > 0, prefix+"-pres-filter", fk(fo.fn)+": {pres} only through passesPresenceFilters of the attached user", c.pos(fo.sink), "", "a presence notification can reach a session without passing the presence filters")
}

var _ = types.Universe

// loopBackEdges: edges into blocks that advance a range iterator (ssa.Next): the decision for one
// recipient must be made within one iteration.
func loopBackEdges(fn *ssa.Function) map[core.Edge]bool {
	out := map[core.Edge]bool{}
	for _, b := range fn.Blocks {
		hasNext := false
		for _, in := range b.Instrs {
			if _, ok := in.(*ssa.Next); ok {
				hasNext = true
			}
		}
		if !hasNext {
			continue
		}
		for _, p := range b.Preds {
			if !b.Dominates(p) {
				continue // the edge entering the loop, not a back edge
			}
			for i, s := range p.Succs {
				if s == b {
					out[core.Edge{From: p, Idx: i}] = true
				}
			}
		}
	}
	return out
}

// isRangeKey: the key variable of a range loop.
func isRangeKey(v ssa.Value) bool {
	ex, ok := core.Strip(v).(*ssa.Extract)
	if !ok || ex.Index != 1 {
		return false
	}
	_, ok = ex.Tuple.(*ssa.Next)
	return ok
}
