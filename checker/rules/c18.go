package rules

import (
	"fmt"
	"go/constant"
	"go/token"
	"go/types"
	"sort"
	"strings"

	"golang.org/x/tools/go/ssa"

	"verifchk/core"
)

func init() { register("C18", checkC18) }

// txBegin describes one transaction opened in a function.
type txBegin struct {
	fn    *ssa.Function
	call  *ssa.Call
	txT   types.Type
	errIx int
}

func hasMethods(t types.Type, names ...string) bool {
	ms := types.NewMethodSet(t)
	for _, n := range names {
		found := false
		for i := 0; i < ms.Len(); i++ {
			if ms.At(i).Obj().Name() == n {
				found = true
			}
		}
		if !found {
			return false
		}
	}
	return true
}

// findTxBegins: calls named Begin* whose first result has Commit and Rollback methods.
func findTxBegins(fn *ssa.Function) []txBegin {
	var out []txBegin
	core.AllInstrs(fn, func(in ssa.Instruction) {
		call, ok := in.(*ssa.Call)
		if !ok {
			return
		}
		f := core.CalleeOf(&call.Call)
		if f == nil || !strings.HasPrefix(f.Name(), "Begin") {
			return
		}
		res := call.Call.Signature().Results()
		if res.Len() != 2 {
			return
		}
		if !hasMethods(res.At(0).Type(), "Commit", "Rollback") {
			return
		}
		out = append(out, txBegin{fn, call, res.At(0).Type(), 1})
	})
	return out
}

// isTxMethodCall: call of method `name` on a receiver of the tx type.
func isTxMethodCall(in ssa.Instruction, txT types.Type, name string) bool {
	ci, ok := in.(ssa.CallInstruction)
	if !ok {
		return false
	}
	f := core.CalleeOf(ci.Common())
	if f == nil || f.Name() != name {
		return false
	}
	args := core.CallArgs(ci.Common())
	if len(args) == 0 {
		return false
	}
	return inTxFamily(args[0].Type(), txT)
}

// inTxFamily: t is the transaction type or a type embedded in it that carries Commit/Rollback
// (sqlx.Tx embeds *sql.Tx: promoted methods are called on the embedded value).
func inTxFamily(t, txT types.Type) bool {
	if types.Identical(t, txT) {
		return true
	}
	st := derefStructT(txT)
	if st == nil {
		return false
	}
	for i := 0; i < st.NumFields(); i++ {
		f := st.Field(i)
		if f.Embedded() && hasMethods(f.Type(), "Commit", "Rollback") && types.Identical(f.Type(), t) {
			return true
		}
	}
	return false
}

func derefStructT(t types.Type) *types.Struct {
	if p, ok := t.Underlying().(*types.Pointer); ok {
		t = p.Elem()
	}
	st, _ := t.Underlying().(*types.Struct)
	return st
}

// rollbackCell: the error cell tested by a deferred closure that rolls back.
func rollbackCell(fn *ssa.Function, txT types.Type) *ssa.Alloc {
	var cell *ssa.Alloc
	core.AllInstrs(fn, func(in ssa.Instruction) {
		d, ok := in.(*ssa.Defer)
		if !ok {
			return
		}
		mc, ok := d.Call.Value.(*ssa.MakeClosure)
		if !ok {
			return
		}
		cl := mc.Fn.(*ssa.Function)
		// closure must call Rollback on txT behind `*freevar != nil`
		var rb ssa.Instruction
		core.AllInstrs(cl, func(i2 ssa.Instruction) {
			if isTxMethodCall(i2, txT, "Rollback") {
				rb = i2
			}
		})
		if rb == nil {
			return
		}
		for i, fv := range cl.FreeVars {
			pt, ok := fv.Type().(*types.Pointer)
			if !ok || !types.Identical(pt.Elem(), types.Universe.Lookup("error").Type()) {
				continue
			}
			g := core.NilGuard("err!=nil", func(v ssa.Value) bool {
				u, ok := v.(*ssa.UnOp)
				return ok && u.X == ssa.Value(fv)
			}, false)
			if ok, cnt := core.GuardedBy(cl, rb, g); ok && cnt[0] > 0 {
				if a, ok := mc.Bindings[i].(*ssa.Alloc); ok {
					cell = a
				}
			}
		}
	})
	return cell
}

func checkC18(c *Ctx) {
	r := c.R
	r.Explanation = "Transaction bracketing (engine E6) over every function of the MySQL and PostgreSQL adapters that opens a transaction (discovered by type: a Begin* call whose result has Commit and Rollback): walking all nil-feasible paths from the success edge of Begin, every return is reached only after Commit or an explicit Rollback, or with the error cell that the deferred rollback closure tests provably non-nil (nilness facts over stores, loads and branch conditions of that cell; shadowed `err`, constant error returns without assignment and success returns without Commit are flagged). Also: (2) no statement in a transactional function goes through the pool handle after Begin; (3) error results of calls on the transaction (or statements prepared from it) are consumed, and the error cell is never overwritten while it may hold an unreported error; (4) both SQL adapters open transactions for the same set of adapter-interface methods, which includes the operations the property names; (5) store layer: account creation compensates a failed subscription insert by deleting the user before returning the error."
	r.NotDecided = []string{"effects of connection loss inside the database server", "MongoDB/RethinkDB adapters (no multi-document transactions by design)", "store-level DeleteList spans three adapter calls (reported as information)"}
	r.Trusted = []string{"database/sql, sqlx, pgx: Commit/Rollback semantics; a failed Commit releases the transaction", "package-level error variables are non-nil", "go/types, go/ssa"}

	perAdapter := map[string]map[string]bool{}
	txWrappers := map[*ssa.Function]bool{}
	total := 0
	for _, rel := range []string{"server/db/mysql", "server/db/postgres"} {
		perAdapter[rel] = map[string]bool{}
		for _, fn := range c.P.ModFuncs {
			if !core.InPkg(fn, rel) {
				continue
			}
			begins := findTxBegins(fn)
			if len(begins) == 0 {
				continue
			}
			r.Func(fk(fn))
			top := core.TopFunc(fn)
			isWrapper := false
			for _, p := range fn.Params {
				if isFuncType(p.Type()) {
					isWrapper = true // run-in-transaction helper: its callers are the transactional operations
				}
			}
			if isWrapper {
				txWrappers[fn] = true
			} else {
				perAdapter[rel][top.Name()] = true
			}
			for _, b := range begins {
				total++
				r.CallSites++
				c.checkTxBracket(b)
			}
		}
	}
	// operations that run their statements through a run-in-transaction helper
	for _, rel := range []string{"server/db/mysql", "server/db/postgres"} {
		for _, fn := range c.P.ModFuncs {
			if !core.InPkg(fn, rel) || txWrappers[fn] {
				continue
			}
			core.AllInstrs(fn, func(in ssa.Instruction) {
				if ci, ok := in.(ssa.CallInstruction); ok {
					if sc := ci.Common().StaticCallee(); sc != nil && txWrappers[sc] {
						perAdapter[rel][core.TopFunc(fn).Name()] = true
						r.Func(fk(fn))
					}
				}
			})
		}
	}
	r.Floor("C18.1-tx-bracket", 40)
	r.Floor("C18.3c-failure-reported", 40)
	c.checkFailureReported("server/db/mysql")
	c.checkFailureReported("server/db/postgres")
	c.checkNoNestedTransaction()
	c.checkTxHelpersUseTheTx()
	c.checkCommitErrorReported()
	c.checkFailureReturnCarriesTheFailure()

	// (4) sibling agreement
	r.Floor("C18.4-adapters-agree", 1)
	var onlyA, onlyB []string
	// exception: schema management is not an operation named by the property; the MySQL adapter
	// wraps one migration step of UpgradeDb in a transaction, the PostgreSQL adapter has no such step.
	delete(perAdapter["server/db/mysql"], "UpgradeDb")
	delete(perAdapter["server/db/postgres"], "UpgradeDb")
	for n := range perAdapter["server/db/mysql"] {
		if !perAdapter["server/db/postgres"][n] {
			onlyA = append(onlyA, n)
		}
	}
	for n := range perAdapter["server/db/postgres"] {
		if !perAdapter["server/db/mysql"][n] {
			onlyB = append(onlyB, n)
		}
	}
	sort.Strings(onlyA)
	sort.Strings(onlyB)
	r.Check(len(onlyA) == 0 && len(onlyB) == 0, "C18.4-adapters-agree", "mysql vs postgres: functions opening a transaction", "-",
		fmt.Sprintf("both adapters open a transaction in the same %d functions", len(perAdapter["server/db/mysql"])),
		fmt.Sprintf("transactional in mysql only: %v; in postgres only: %v", onlyA, onlyB))
	required := []string{"UserCreate", "UserDelete", "UserUpdateTags", "TopicCreateP2P", "TopicShare", "TopicDelete", "SubsDelete", "MessageDeleteList", "CredUpsert", "FileFinishUpload", "FileLinkAttachments", "FileDeleteUnused", "AuthUpdRecord", "TopicUpdate", "UserUpdate", "SubsDelForUser", "CredDel", "CredConfirm", "DeviceUpsert", "TopicOwnerChange", "CreateDb", "UpgradeDb"}
	for _, rel := range []string{"server/db/mysql", "server/db/postgres"} {
		var missing []string
		for _, n := range required {
			if !perAdapter[rel][n] {
				// only demand those that exist as adapter methods and are transactional in the sibling today
				if perAdapter["server/db/mysql"][n] || perAdapter["server/db/postgres"][n] {
					missing = append(missing, n)
				}
			}
		}
		named := []string{"UserCreate", "TopicCreateP2P", "TopicShare", "TopicDelete", "SubsDelete", "UserDelete", "MessageDeleteList", "UserUpdateTags", "CredUpsert", "FileFinishUpload", "FileLinkAttachments"}
		for _, n := range named {
			if !perAdapter[rel][n] {
				missing = append(missing, n+" (named by the property)")
			}
		}
		r.Check(len(missing) == 0, "C18.4b-named-operations-transactional", rel+": operations named by the property run in a transaction", "-",
			"all present", fmt.Sprintf("no transaction is opened in: %v", missing))
	}

	c.checkC18StoreLayer()
}

func (c *Ctx) checkTxBracket(b txBegin) {
	r := c.R
	fn := b.fn
	name := fk(fn)
	construct := name + ": transaction opened by " + calleeName(b.call)
	cell := rollbackCell(fn, b.txT)
	isEnd := func(in ssa.Instruction) bool {
		return isTxMethodCall(in, b.txT, "Commit") || (isTxMethodCall(in, b.txT, "Rollback") && !isDefer(in))
	}
	type bad struct {
		ret  *ssa.Return
		why  string
		line string
	}
	var bads []bad
	nReturns := 0
	seenRet := map[*ssa.Return]bool{}
	walk := func(on func(ssa.Instruction, core.NilFacts)) (res core.NilWalkResult) {
		// function literals called directly are entered (a local `exec := func(q string) bool { _, err =
		// tx.Exec(q); return err == nil }` writes the error variable and reports its outcome)
		onlyLiterals := func(g *ssa.Function) bool { return g.Parent() == nil }
		core.WalkDeep(2, onlyLiterals, func() {
			// when the Begin error is tested directly (not through a captured cell) start on its success edge
			gBegin := core.NilGuard("Begin err==nil", errResultOf(b.call, b.errIx), true)
			if pe, cnt := core.PassEdges(fn, gBegin); cnt[0] > 0 {
				res = core.NilWalk(fn, pe, nil, isEnd, on)
				return
			}
			res = core.NilWalkAfter(fn, b.call, nil, isEnd, on)
		})
		return
	}
	res := walk(func(in ssa.Instruction, f core.NilFacts) {
		ret, ok := in.(*ssa.Return)
		if !ok {
			return
		}
		if !seenRet[ret] {
			seenRet[ret] = true
			nReturns++
		}
		if cell == nil {
			bads = append(bads, bad{ret, "return without Commit/Rollback and no deferred rollback on an error cell", c.pos(ret)})
			return
		}
		n, known := f.CellFact(cell)
		if known && !n {
			return // deferred closure will roll back
		}
		why := "the error variable tested by the deferred rollback may be nil here: transaction neither committed nor rolled back"
		if known && n {
			why = "the error variable tested by the deferred rollback is nil here (shadowed or never assigned): transaction neither committed nor rolled back"
		}
		bads = append(bads, bad{ret, why, c.pos(ret)})
	})
	if res.Overflow {
		r.Fail("C18.1-tx-bracket", construct, c.pos(b.call), "path exploration overflowed: undecided")
		return
	}
	if len(bads) == 0 {
		r.OK("C18.1-tx-bracket", construct, c.pos(b.call), fmt.Sprintf("%d returns reachable without Commit all have the rollback error cell non-nil (%d states)", nReturns, res.States))
	} else {
		seen := map[string]bool{}
		for _, bd := range bads {
			key := construct + " / return #" + retOrdinal(fn, bd.ret)
			if seen[key] {
				continue
			}
			seen[key] = true
			r.Fail("C18.1-tx-bracket", key, bd.line, bd.why)
		}
	}

	// (2) one handle: no call through the pool after Begin succeeded
	poolRecv := core.CallArgs(&b.call.Call)[0]
	var poolUse ssa.Instruction
	walk(func(in ssa.Instruction, f core.NilFacts) {
		ci, ok := in.(ssa.CallInstruction)
		if !ok || in == ssa.Instruction(b.call) {
			return
		}
		args := core.CallArgs(ci.Common())
		if len(args) == 0 {
			return
		}
		if (sameValue(args[0], poolRecv, 0) && types.Identical(args[0].Type(), poolRecv.Type())) || throughSameField(args[0], poolRecv) {
			fobj := core.CalleeOf(ci.Common())
			if fobj != nil && !strings.HasPrefix(fobj.Name(), "Begin") {
				poolUse = in
			}
		}
	})
	if poolUse != nil {
		r.Fail("C18.2-one-handle", name+": statement through the pool handle inside a transaction", c.pos(poolUse), "a statement bypasses the open transaction: "+poolUse.String())
	} else {
		r.OK("C18.2-one-handle", name+": all statements between Begin and Commit use the transaction", c.pos(b.call), "")
	}

	// (3) results consumed; error cell not overwritten while possibly pending
	c.checkTxErrorsConsumed(b, isEnd, cell)
}

func isDefer(in ssa.Instruction) bool {
	_, ok := in.(*ssa.Defer)
	return ok
}

func retOrdinal(fn *ssa.Function, ret *ssa.Return) string {
	n := 0
	for _, b := range fn.Blocks {
		for _, in := range b.Instrs {
			if rr, ok := in.(*ssa.Return); ok {
				n++
				if rr == ret {
					return fmt.Sprint(n)
				}
			}
		}
	}
	return "?"
}

func (c *Ctx) checkTxErrorsConsumed(b txBegin, isEnd func(ssa.Instruction) bool, cell *ssa.Alloc) {
	r := c.R
	fn := b.fn
	name := fk(fn)
	errT := types.Universe.Lookup("error").Type()
	swallowed := []ssa.Instruction{}
	core.AllInstrs(fn, func(in ssa.Instruction) {
		call, ok := in.(*ssa.Call)
		if !ok {
			return
		}
		args := core.CallArgs(&call.Call)
		if len(args) == 0 {
			return
		}
		// calls on the transaction, or module helpers that receive the transaction
		onTx := inTxFamily(args[0].Type(), b.txT)
		passesTx := false
		for _, a := range args {
			if inTxFamily(a.Type(), b.txT) {
				passesTx = true
			}
		}
		if !onTx && !passesTx {
			return
		}
		f := core.CalleeOf(&call.Call)
		if f == nil || f.Name() == "Rollback" {
			return
		}
		sig := call.Call.Signature()
		ei := -1
		for i := 0; i < sig.Results().Len(); i++ {
			if types.Identical(sig.Results().At(i).Type(), errT) {
				ei = i
			}
		}
		if ei < 0 {
			return
		}
		used := false
		if sig.Results().Len() == 1 {
			used = call.Referrers() != nil && len(*call.Referrers()) > 0
		} else if call.Referrers() != nil {
			for _, ref := range *call.Referrers() {
				if ex, ok := ref.(*ssa.Extract); ok && ex.Index == ei && ex.Referrers() != nil && len(*ex.Referrers()) > 0 {
					used = true
				}
			}
		}
		if !used {
			swallowed = append(swallowed, call)
		}
	})
	if len(swallowed) == 0 {
		r.OK("C18.3-no-swallowed-error", name+": error results of transactional statements are consumed", c.pos(b.call), "")
	}
	for _, s := range swallowed {
		f := core.CalleeOf(s.(*ssa.Call).Common())
		r.Fail("C18.3-no-swallowed-error", name+": error of "+f.Name()+" discarded", c.pos(s), "the error result of a statement inside the transaction is discarded")
	}

	// overwrite of a possibly pending error
	if cell == nil {
		return
	}
	var lost ssa.Instruction
	// exception (one row): the error result of (sql.Result).RowsAffected is treated as nil - the
	// MySQL driver never fails it and the adapter's own code discards it everywhere else.
	core.ExtraNilness = func(v ssa.Value) (bool, bool) {
		if ex, ok := v.(*ssa.Extract); ok {
			if call, ok := ex.Tuple.(*ssa.Call); ok {
				if f := core.CalleeOf(&call.Call); f != nil && f.Name() == "RowsAffected" {
					return true, true
				}
			}
		}
		return false, false
	}
	defer func() { core.ExtraNilness = nil }()
	core.WalkDeep(2, func(g *ssa.Function) bool { return g.Parent() == nil }, func() {
		core.NilWalkAfter(fn, b.call, nil, isEnd, func(in ssa.Instruction, f core.NilFacts) {
			st, ok := in.(*ssa.Store)
			if !ok || (st.Addr != ssa.Value(cell) && core.Strip(st.Addr) != ssa.Value(cell)) {
				return
			}
			if errResultOf(b.call, b.errIx)(st.Val) {
				return // the assignment of Begin's own error
			}
			n, known := f.CellFact(cell)
			if known && n {
				return
			}
			if known && !n {
				// overwriting a known non-nil error: allowed only when the new value is itself non-nil
				// (translation of the error) or the old value was compared with a sentinel (handled).
				if k2, n2 := core.Nilness(st.Val, f); k2 && !n2 {
					return
				}
				if cellComparedWithSentinel(fn, cell) {
					return
				}
			}
			if !known {
				// unknown: the cell was assigned and not yet tested
				if cellComparedWithSentinel(fn, cell) && false {
					return
				}
			}
			if lost == nil {
				lost = in
			}
		})
	})
	if lost != nil {
		r.Fail("C18.3b-pending-error-overwritten", name+": error variable reassigned while it may hold an unreported error", c.pos(lost), "a failure recorded in the rollback error variable can be overwritten (e.g. by a later successful call) before it is tested: partial write would be committed")
	} else {
		r.OK("C18.3b-pending-error-overwritten", name+": error variable never reassigned while pending", c.pos(b.call), "")
	}
}

// cellComparedWithSentinel: the cell's value is compared (==, !=) with a non-nil value somewhere
// in fn (e.g. `err != sql.ErrNoRows`): such errors are handled by comparison, not by nil test.
func cellComparedWithSentinel(fn *ssa.Function, cell *ssa.Alloc) bool {
	found := false
	core.AllInstrs(fn, func(in ssa.Instruction) {
		b, ok := in.(*ssa.BinOp)
		if !ok || (b.Op.String() != "==" && b.Op.String() != "!=") {
			return
		}
		isLoad := func(v ssa.Value) bool {
			u, ok := v.(*ssa.UnOp)
			return ok && u.X == ssa.Value(cell)
		}
		if (isLoad(b.X) && !core.IsNil(b.Y)) || (isLoad(b.Y) && !core.IsNil(b.X)) {
			found = true
		}
	})
	return found
}

func (c *Ctx) checkC18StoreLayer() {
	r := c.R
	userCreate := c.method("server/db", "Adapter", "UserCreate")
	userDelete := c.method("server/db", "Adapter", "UserDelete")
	subsCreate := c.E().storeIface("SubsPersistenceInterface", "Create")
	r.Floor("C18.5-store-compensation", 1)
	for _, fn := range c.funcsCalling(userCreate, "server/store") {
		r.Func(fk(fn))
		for _, sc := range core.CallsTo(fn, subsCreate) {
			g := successGuard(sc)
			fe := core.FailEdges(fn, g)
			if len(fe) == 0 {
				r.Fail("C18.5-store-compensation", fk(fn)+": failed Subs.Create is compensated", c.pos(sc), "error of Subs.Create not tested")
				continue
			}
			// every path from the failure edge to return passes UserDelete and returns a non-nil error
			// the compensation removes the row (hard delete): a soft delete keeps the user and its tags
			isHardDelete := func(in ssa.Instruction) bool {
				if !core.IsCallInstrTo(userDelete)(in) {
					return false
				}
				args := core.CallArgs(in.(ssa.CallInstruction).Common())
				k, ok := core.Strip(args[len(args)-1]).(*ssa.Const)
				return ok && k.Value != nil && k.Value.Kind() == constant.Bool && constant.BoolVal(k.Value)
			}
			miss, _ := core.PathFromEdgeAvoiding(fn, fe, core.IsReturn, isHardDelete, nil)
			r.Check(!miss, "C18.5-store-compensation", fk(fn)+": failed Subs.Create is compensated", c.pos(sc),
				"user row is deleted before the error is returned", "account creation can return with the user row stored but its built-in subscriptions missing")
		}
	}
}

// ---------------------------------------------------------------------------------------------
// C18.3c: a failed transactional statement makes the enclosing function return a non-nil error.

func isStmtType(t types.Type) bool {
	if p, ok := t.(*types.Pointer); ok {
		t = p.Elem()
	}
	n, ok := t.(*types.Named)
	if !ok || n.Obj().Pkg() == nil {
		return false
	}
	pk := n.Obj().Pkg().Path()
	if pk != "database/sql" && pk != "github.com/jmoiron/sqlx" {
		return false
	}
	return n.Obj().Name() == "Stmt" || n.Obj().Name() == "NamedStmt"
}

// txFamilyTypes: the transaction types used by the SQL adapters, discovered from Begin* results.
func (c *Ctx) txTypes(rel string) []types.Type {
	var out []types.Type
	for _, fn := range c.P.ModFuncs {
		if !core.InPkg(fn, rel) {
			continue
		}
		for _, b := range findTxBegins(fn) {
			dup := false
			for _, t := range out {
				if types.Identical(t, b.txT) {
					dup = true
				}
			}
			if !dup {
				out = append(out, b.txT)
			}
		}
	}
	return out
}

// sentinelEqEdges: edges on which an error value was found equal to a non-nil sentinel
// (`err == sql.ErrNoRows`): the error is handled by comparison there.
func sentinelEqEdges(fn *ssa.Function) map[core.Edge]bool {
	out := map[core.Edge]bool{}
	errT := types.Universe.Lookup("error").Type()
	// classification predicates, also when their result was first named (`dup := err != nil && isDupe(err)`)
	gPred := core.Guard{Name: "error classified by a predicate", Match: func(a core.CondAtom) (bool, bool) {
		if a.Op != token.ILLEGAL {
			return false, false
		}
		call, ok := a.Val.(*ssa.Call)
		if !ok {
			return false, false
		}
		for _, arg := range call.Call.Args {
			if types.Identical(arg.Type(), errT) {
				return true, true
			}
		}
		return false, false
	}}
	pe, _ := core.GuardEdges(fn, gPred)
	for e := range pe {
		out[e] = true
	}
	for _, b := range fn.Blocks {
		ifi, ok := b.Instrs[len(b.Instrs)-1].(*ssa.If)
		if !ok {
			continue
		}
		a := core.NormCond(ifi.Cond)
		if a.Op == token.ILLEGAL {
			// classification predicate over the error (isDupe(err), errors.Is(err, X)): the edge on
			// which it holds is an error handled by inspection
			if call, ok := a.Val.(*ssa.Call); ok {
				for _, arg := range call.Call.Args {
					if types.Identical(arg.Type(), errT) {
						idx := 0
						if a.Negated {
							idx = 1
						}
						out[core.Edge{From: b, Idx: idx}] = true
					}
				}
			}
			continue
		}
		if a.Op.String() != "==" || core.IsNil(a.X) || core.IsNil(a.Y) {
			continue
		}
		if !types.Identical(a.X.Type(), errT) && !types.Identical(a.Y.Type(), errT) {
			continue
		}
		idx := 0
		if a.Negated {
			idx = 1
		}
		out[core.Edge{From: b, Idx: idx}] = true
	}
	return out
}

func (c *Ctx) checkFailureReported(rel string) {
	r := c.R
	txTs := c.txTypes(rel)
	inFam := func(t types.Type) bool {
		for _, x := range txTs {
			if inTxFamily(t, x) {
				return true
			}
		}
		return false
	}
	errT := types.Universe.Lookup("error").Type()
	for _, fn := range c.P.ModFuncs {
		if !core.InPkg(fn, rel) {
			continue
		}
		errIdx := errIndex(fn.Signature)
		if errIdx < 0 {
			continue
		}
		hasTx := len(findTxBegins(fn)) > 0
		for i := 0; i < fn.Signature.Params().Len(); i++ {
			if inFam(fn.Signature.Params().At(i).Type()) {
				hasTx = true
			}
		}
		if !hasTx {
			continue
		}
		cut := sentinelEqEdges(fn)
		nCalls := 0
		var firstBad ssa.Instruction
		var badRet ssa.Instruction
		core.AllInstrs(fn, func(in ssa.Instruction) {
			call, ok := in.(*ssa.Call)
			if !ok {
				return
			}
			args := core.CallArgs(&call.Call)
			rel := false
			for i, a := range args {
				if inFam(a.Type()) || (i == 0 && isStmtType(a.Type())) {
					rel = true
				}
			}
			if !rel {
				return
			}
			f := core.CalleeOf(&call.Call)
			if f == nil || f.Name() == "Rollback" {
				return
			}
			sig := call.Call.Signature()
			var eVal ssa.Value
			if sig.Results().Len() == 1 && types.Identical(sig.Results().At(0).Type(), errT) {
				eVal = call
			} else if call.Referrers() != nil {
				for _, ref := range *call.Referrers() {
					if ex, ok := ref.(*ssa.Extract); ok && types.Identical(ex.Type(), errT) {
						eVal = ex
					}
				}
			}
			if eVal == nil {
				return
			}
			// exception (one row): SAVEPOINT / ROLLBACK TO SAVEPOINT / RELEASE SAVEPOINT bookkeeping
			// statements: their failure is logged and the guarded statement's own error is what counts.
			for _, a := range args {
				if k, ok := a.(*ssa.Const); ok && k.Value != nil && k.Value.Kind() == constant.String && strings.Contains(constant.StringVal(k.Value), "SAVEPOINT") {
					return
				}
			}
			nCalls++
			// the error handed straight to a sentinel filter (`err = exceptNotFound(stmt(...))`, nil
			// only for the sentinel): the statement failed with another error, the filter's result is
			// that error
			if refs := eVal.Referrers(); refs != nil && len(*refs) == 1 {
				if fc, isCall := (*refs)[0].(*ssa.Call); isCall && isSentinelFilter(fc.Call.StaticCallee()) {
					eVal, call = fc, fc
				}
			}
			// the statement is assumed to have failed (however its error is tested afterwards)
			init := core.NilFacts{eVal: false}
			if ex, isEx := eVal.(*ssa.Extract); isEx {
				init = core.NilFacts{core.ResultFact(ex.Tuple, ex.Index): false}
			}
			core.WalkDeep(2, func(g *ssa.Function) bool { return g.Parent() == nil }, func() {
				core.NilWalkAfterWith(fn, call, init, cut, nil, func(i2 ssa.Instruction, f core.NilFacts) {
					ret, ok := i2.(*ssa.Return)
					if !ok || i2.Parent() != fn {
						return
					}
					if n, known := f[eVal]; !known || n {
						return
					}
					if k, n := core.Nilness(ret.Results[errIdx], f); !(k && !n) {
						if firstBad == nil {
							firstBad = call
							badRet = ret
						}
					}
				})
			})
		})
		if nCalls == 0 {
			continue
		}
		r.Func(fk(fn))
		construct := fk(fn) + ": a failed transactional statement is reported to the caller"
		if firstBad != nil {
			f := core.CalleeOf(firstBad.(*ssa.Call).Common())
			r.Fail("C18.3c-failure-reported", construct, c.pos(firstBad),
				fmt.Sprintf("after %s failed (error known non-nil) the function can return at %s with an error that is not provably non-nil: the failure is swallowed and a partial write may be committed", f.Name(), c.pos(badRet)))
		} else {
			r.OK("C18.3c-failure-reported", construct, c.P.Pos(fn.Pos()), fmt.Sprintf("%d statements checked", nCalls))
		}
	}
}

// throughSameField: v is reached from the same struct field as ref through embedded-field
// selections and loads (a.db.DB.ExecContext vs a.db.BeginTxx: both go through adapter.db).
func throughSameField(v, ref ssa.Value) bool {
	fieldOf := func(x ssa.Value) *types.Var {
		for i := 0; i < 6 && x != nil; i++ {
			switch y := x.(type) {
			case *ssa.UnOp:
				x = y.X
			case *ssa.FieldAddr:
				f, base := core.FieldOfAddr(y)
				if _, isParam := core.Strip(base).(*ssa.Parameter); isParam {
					return f
				}
				x = base
			case *ssa.Field:
				f, base := core.LoadedField(y)
				if _, isParam := core.Strip(base).(*ssa.Parameter); isParam {
					return f
				}
				x = base
			default:
				return nil
			}
		}
		return nil
	}
	f1, f2 := fieldOf(v), fieldOf(ref)
	return f1 != nil && f1 == f2
}

// isSentinelFilter: g(err error) error returns its argument, or nil only on edges where the
// argument was found equal to a non-nil sentinel.
func isSentinelFilter(g *ssa.Function) bool {
	if g == nil || !core.InModule(g) || len(g.Blocks) == 0 || len(g.Params) != 1 || g.Signature.Results().Len() != 1 {
		return false
	}
	errT := types.Universe.Lookup("error").Type()
	if !types.Identical(g.Params[0].Type(), errT) || !types.Identical(g.Signature.Results().At(0).Type(), errT) {
		return false
	}
	ok := true
	core.AllInstrs(g, func(in ssa.Instruction) {
		ret, isRet := in.(*ssa.Return)
		if !isRet {
			return
		}
		v := core.Strip(ret.Results[0])
		if v != ssa.Value(g.Params[0]) && !core.IsNil(v) {
			ok = false
		}
	})
	if !ok {
		return false
	}
	found, _ := core.PathAvoiding(g, nil, func(in ssa.Instruction) bool {
		ret, isRet := in.(*ssa.Return)
		return isRet && core.IsNil(core.Strip(ret.Results[0]))
	}, nil, sentinelEqEdges(g))
	return !found
}
