package rules

import (
	"fmt"
	"go/token"
	"go/types"

	"golang.org/x/tools/go/ssa"

	"verifchk/core"
)

func init() { register("C15", checkC15) }

func checkC15(c *Ctx) {
	r := c.R
	r.Explanation = "Structural necessary conditions of the p2p call life cycle: (1) invitation gate: the store Topic.currentCall = &videoCall{..} is reached only from a publish handler that passed ICE servers configured, Topic.cat == P2P, currentCall == nil and a successful save; the refusal edges are effect-free; (2) census of writers of the call slot: one setter, nil-stores only in the ending functions, all on the topic goroutine; (3) every ending path clears: in the ending functions every path from the `currentCall != nil` edge to return stores nil to the slot; the establishment timer is reset on invite and stopped on accept and on end; (4) re-entrancy: after any call that can reach (call graph) a store to the slot, the slot is not dereferenced again without a new nil test; (5) role checks: ringing/accept are forwarded only with exactly one party, a sender that is neither the originating session nor the originating user, a matching call id and a subscriber; offer/answer/candidate only with two parties and a party session; the forward sink is queueOut on the other party's session value, never the fan-out loop; (6) the replacement message head is built by messageHead, which sets `replace` to \":\"+seq and `webrtc`, content is the stored call content and the author the originator."
	r.NotDecided = []string{"exactly-once ending across interleavings of hang-up, timeout and disconnect", "timer expiry semantics"}
	r.Trusted = []string{"go/types, go/ssa, VTA call graph"}

	slot := c.E().topicField("currentCall")
	r.Func("Topic.currentCall")

	// (2) writers
	var setters, clearers []fieldAccess
	run, init := c.topicActorRoots()
	allowed := map[*ssa.Function]bool{}
	for _, f := range append(run, init...) {
		allowed[f] = true
	}
	ri := c.roots()
	r.Floor("C15.2-slot-writers", 3)
	for _, a := range c.censusField(slot) {
		if a.Kind != "store" || rootsInAlloc(a.Instr.(*ssa.Store).Addr) {
			continue
		}
		st := a.Instr.(*ssa.Store)
		r.Func(fk(a.Fn))
		kind := "set"
		if core.IsNil(st.Val) {
			kind = "clear"
			clearers = append(clearers, a)
		} else {
			setters = append(setters, a)
		}
		bad := []string{}
		for rt := range ri.of(a.Fn) {
			if !allowed[rt] {
				bad = append(bad, fk(rt))
			}
		}
		r.Check(len(bad) == 0, "C15.2-slot-writers", fmt.Sprintf("%s: %s Topic.currentCall", fk(a.Fn), kind), c.pos(st), "on the topic goroutine", fmt.Sprintf("the call slot is written off the topic goroutine: %v", bad))
	}
	r.Check(len(setters) == 1, "C15.2-slot-writers", "exactly one function sets Topic.currentCall", "-", "", fmt.Sprintf("%d setters of the call slot", len(setters)))

	// (1) invitation gate
	c.checkInviteGate(setters)
	// (3) endings clear
	c.checkEndingsClear(clearers)
	c.checkEndingOrigin(clearers)
	c.checkAcceptRecordedAfterPublished()
	c.checkNoRefusalAfterSave()
	c.checkCallTimerStoppedOnlyWhenSettled()
	c.checkIceBehindEnabled()
	// (4) re-entrancy
	c.checkSlotReentrancy(slot)
	// (5) role checks
	c.checkCallRoles()
	// (6) replacement message
	c.checkReplacementMessage()
}

func (c *Ctx) checkInviteGate(setters []fieldAccess) {
	r := c.R
	slot := c.E().topicField("currentCall")
	iceF := c.globalStructField("server", "globals", "iceServers")
	catF := c.E().topicField("cat")
	p2p := c.konst("server/store/types", "TopicCatP2P")
	r.Floor("C15.1-invite-gate", 4)
	for _, s := range setters {
		for _, cs := range c.callersOf(s.Fn) {
			fn := cs.Caller
			r.Func(fk(fn))
			site := cs.Site.(ssa.Instruction)
			base := fk(fn) + ": call of " + fk(s.Fn)
			gIce := core.Guard{Name: "len(iceServers)!=0", Match: func(a core.CondAtom) (bool, bool) {
				if a.Op != token.EQL {
					return false, false
				}
				var l ssa.Value
				if core.IsConstInt(0)(a.X) {
					l = a.Y
				} else if core.IsConstInt(0)(a.Y) {
					l = a.X
				}
				if l == nil || !isLenCall(l) || !core.IsFieldLoad(iceF)(l.(*ssa.Call).Call.Args[0]) {
					return false, false
				}
				return true, false
			}}
			// the gate is evaluated under `isCall`; the invite call itself is also under `isCall`.
			// All four must dominate the call when restricted to paths through the isCall==true edges:
			// structurally every path to the invite passes each pass edge.
			for _, g := range []struct {
				name string
				g    core.Guard
				msg  string
			}{
				{"ICE servers configured", gIce, "a call can be started although calling is not configured"},
				{"topic is p2p", core.EqGuard("cat==P2P", core.IsFieldLoad(catF), core.IsConstOf(p2p), true), "a call can be started outside a peer-to-peer topic"},
				{"no call in progress", core.NilGuard("currentCall==nil", core.IsFieldLoad(slot), true), "a second invitation can replace the call in progress instead of being answered busy"},
			} {
				ok, cnt := core.GuardedByCorr(fn, site, g.g)
				if !ok {
					// single-exit style: the refusal is kept in a local and tested for nil later
					ok, cnt = core.GuardedByNilCorr(fn, site, g.g)
				}
				r.Check(ok && cnt[0] > 0, "C15.1-invite-gate", base+" / "+g.name, c.pos(site), "", g.msg)
				fe := core.FailEdges(fn, g.g)
				if bad := c.effectFreeFromNil(fn, fe); bad != nil {
					r.Fail("C15.1b-refusal-effect-free", base+" / refusal: "+g.name, c.pos(bad), "effect after refusing the invitation: "+bad.String())
				} else {
					r.OK("C15.1b-refusal-effect-free", base+" / refusal: "+g.name, c.pos(site), "")
				}
			}
			// after a successful save
			saveFn := c.funcsCalling(c.E().storeIface("MessagesPersistenceInterface", "Save"), "server")
			okSave := false
			for _, sf := range saveFn {
				sf = c.phaseRoot(sf)
				core.AllInstrs(fn, func(in ssa.Instruction) {
					if call, ok := in.(*ssa.Call); ok && call.Call.StaticCallee() == sf {
						if g, _ := core.GuardedBy(fn, site, successGuard(call)); g {
							okSave = true
						}
					}
				})
			}
			r.Check(okSave, "C15.1-invite-gate", base+" / invitation saved", c.pos(site), "", "the call slot is taken although the invitation message was not saved")
		}
		// timer reset on invite
		timerF := c.E().topicField("callEstablishmentTimer")
		hasReset := false
		core.AllInstrs(s.Fn, func(in ssa.Instruction) {
			if call, ok := in.(*ssa.Call); ok {
				if f := core.CalleeOf(&call.Call); f != nil && f.Name() == "Reset" && core.IsFieldLoad(timerF)(core.CallArgs(&call.Call)[0]) {
					hasReset = true
				}
			}
		})
		r.Check(hasReset, "C15.3b-timer", fk(s.Fn)+": establishment timer armed on invite", c.P.Pos(s.Fn.Pos()), "", "the establishment timeout is not armed when a call starts")
	}
}

func (c *Ctx) checkEndingsClear(clearers []fieldAccess) {
	r := c.R
	slot := c.E().topicField("currentCall")
	timerF := c.E().topicField("callEstablishmentTimer")
	r.Floor("C15.3-endings-clear", 2)
	// a helper that frees the slot unconditionally (`releaseCurrentCall()`: no test of the slot, the
	// nil store on every path): the functions that call it are the ending functions
	storesNil := func(in ssa.Instruction) bool {
		if st, ok := in.(*ssa.Store); ok {
			f, _ := core.FieldOfAddr(st.Addr)
			return f == slot && core.IsNil(st.Val)
		}
		return false
	}
	release := map[*ssa.Function]bool{}
	for _, a := range clearers {
		fn := a.Fn
		_, cnt := firstPassEdges(fn, core.NilGuard("currentCall!=nil", core.IsFieldLoad(slot), false))
		if cnt[0] == 0 {
			if found, _ := core.PathAvoiding(fn, nil, core.IsReturn, storesNil, nil); !found {
				release[fn] = true
			}
		}
	}
	if len(release) > 0 {
		var more []fieldAccess
		for _, a := range clearers {
			if !release[a.Fn] {
				more = append(more, a)
			}
		}
		for rf := range release {
			for _, cs := range c.callersOf(rf) {
				if call, ok := cs.Site.(*ssa.Call); ok && call.Call.StaticCallee() == rf {
					more = append(more, fieldAccess{Fn: cs.Caller, Instr: call, Kind: "store"})
				}
			}
		}
		clearers = more
	}
	seen := map[*ssa.Function]bool{}
	for _, a := range clearers {
		fn := a.Fn
		if seen[fn] {
			continue
		}
		seen[fn] = true
		r.Func(fk(fn))
		// from the `currentCall != nil` edge (first test) every path to return stores nil to the slot
		// or hands over to another ending function
		g := core.NilGuard("currentCall!=nil", core.IsFieldLoad(slot), false)
		edges, cnt := firstPassEdges(fn, g)
		isClear := func(in ssa.Instruction) bool {
			if st, ok := in.(*ssa.Store); ok {
				f, _ := core.FieldOfAddr(st.Addr)
				return f == slot && core.IsNil(st.Val)
			}
			if call, ok := in.(*ssa.Call); ok {
				if cal := call.Call.StaticCallee(); cal != nil && cal != fn {
					if release[cal] {
						return true
					}
					for _, o := range clearers {
						if o.Fn == cal {
							return true
						}
					}
				}
			}
			return false
		}
		found, w := core.PathFromEdgeAvoidingX(fn, edges, core.IsReturn, isClear, nil)
		r.Check(!found && cnt[0] > 0, "C15.3-endings-clear", fk(fn)+": every ending path frees the call slot", c.P.Pos(fn.Pos()), "",
			"an ending path returns"+posOf(c, w)+" with the call slot still taken: every later invitation is answered busy")
		// timer stopped in the function that produces the final message
		hasStop := false
		scanFns := []*ssa.Function{fn}
		core.AllInstrs(fn, func(in ssa.Instruction) {
			if call, ok := in.(*ssa.Call); ok {
				if cal := call.Call.StaticCallee(); cal != nil && release[cal] {
					scanFns = append(scanFns, cal)
				}
			}
		})
		for _, sf := range scanFns[1:] {
			core.AllInstrs(sf, func(in ssa.Instruction) {
				if call, ok := in.(*ssa.Call); ok {
					if f := core.CalleeOf(&call.Call); f != nil && f.Name() == "Stop" && len(core.CallArgs(&call.Call)) > 0 && core.IsFieldLoad(timerF)(core.CallArgs(&call.Call)[0]) {
						hasStop = true
					}
				}
			})
		}
		core.AllInstrs(fn, func(in ssa.Instruction) {
			if call, ok := in.(*ssa.Call); ok {
				if f := core.CalleeOf(&call.Call); f != nil && f.Name() == "Stop" && core.IsFieldLoad(timerF)(core.CallArgs(&call.Call)[0]) {
					hasStop = true
				}
			}
		})
		if c.callsSave(fn) {
			r.Check(hasStop, "C15.3b-timer", fk(fn)+": establishment timer stopped on end", c.P.Pos(fn.Pos()), "", "the establishment timer keeps running after the call ended")
		}
	}
}

func (c *Ctx) callsSave(fn *ssa.Function) bool {
	for _, sf := range c.funcsCalling(c.E().storeIface("MessagesPersistenceInterface", "Save"), "server") {
		found := false
		core.AllInstrs(fn, func(in ssa.Instruction) {
			if call, ok := in.(*ssa.Call); ok && call.Call.StaticCallee() == sf {
				found = true
			}
		})
		if found {
			return true
		}
	}
	return false
}

// checkSlotReentrancy: engine E12.
func (c *Ctx) checkSlotReentrancy(slot *types.Var) {
	r := c.R
	cg := c.P.CallGraph()
	// functions storing to the slot
	writers := map[*ssa.Function]bool{}
	for _, a := range c.censusField(slot) {
		if a.Kind == "store" && !rootsInAlloc(a.Instr.(*ssa.Store).Addr) {
			writers[a.Fn] = true
		}
	}
	// functions that (transitively, same goroutine) reach a writer
	reach := map[*ssa.Function]bool{}
	for w := range writers {
		reach[w] = true
	}
	for changed := true; changed; {
		changed = false
		for fn, n := range cg.Nodes {
			if fn == nil || reach[fn] {
				continue
			}
			for _, e := range n.Out {
				if _, isGo := e.Site.(*ssa.Go); isGo {
					continue
				}
				if reach[e.Callee.Func] {
					reach[fn] = true
					changed = true
					break
				}
			}
		}
	}
	c.checkEndingClearsFirst(slot, reach)
	r.Floor("C15.4-slot-reentrancy", 3)
	for _, fn := range c.P.ModFuncs {
		if !core.InPkg(fn, "server") || !c.readsField(fn, slot) {
			continue
		}
		// loads of the slot: checked (only compared with nil) vs dereferenced
		var derefs, checks []ssa.Instruction
		core.AllInstrs(fn, func(in ssa.Instruction) {
			u, ok := in.(*ssa.UnOp)
			if !ok || u.Op != token.MUL {
				return
			}
			if f, _ := core.FieldOfAddr(u.X); f != slot {
				return
			}
			onlyCmp := true
			if u.Referrers() != nil {
				for _, ref := range *u.Referrers() {
					b, isB := ref.(*ssa.BinOp)
					if !(isB && (b.Op == token.EQL || b.Op == token.NEQ) && (core.IsNil(b.X) || core.IsNil(b.Y))) {
						// a copy into a local is fine too (the fix idiom): stores into an Alloc / phi use
						if st, isSt := ref.(*ssa.Store); isSt && rootsInAlloc(st.Addr) {
							continue
						}
						onlyCmp = false
					}
				}
			}
			if onlyCmp {
				checks = append(checks, in)
			} else {
				derefs = append(derefs, in)
			}
		})
		if len(derefs) == 0 {
			continue
		}
		r.Func(fk(fn))
		isCheck := func(in ssa.Instruction) bool {
			for _, k := range checks {
				if k == in {
					return true
				}
			}
			// a store to the slot also re-establishes knowledge
			if st, ok := in.(*ssa.Store); ok {
				if f, _ := core.FieldOfAddr(st.Addr); f == slot {
					return true
				}
			}
			return false
		}
		var bad ssa.Instruction
		var badCall ssa.Instruction
		core.AllInstrs(fn, func(in ssa.Instruction) {
			call, ok := in.(*ssa.Call)
			if !ok || bad != nil {
				return
			}
			mayWrite := false
			for _, cal := range c.calleesOf(fn, call) {
				if reach[cal] {
					mayWrite = true
				}
			}
			if cal := call.Call.StaticCallee(); cal != nil && reach[cal] {
				mayWrite = true
			}
			if !mayWrite {
				return
			}
			for _, d := range derefs {
				if found, _ := core.PathAvoiding(fn, call, func(x ssa.Instruction) bool { return x == d }, isCheck, nil); found {
					bad, badCall = d, call
					return
				}
			}
		})
		r.Check(bad == nil, "C15.4-slot-reentrancy", fk(fn)+": call slot not dereferenced after a call that may end the call", c.P.Pos(fn.Pos()), "",
			fmt.Sprintf("Topic.currentCall is dereferenced%s after %s%s, which can reach a function that clears or replaces the slot (e.g. detaching a stuck party session ends the call), without a new nil test", posOf(c, bad), describeCallSafe(badCall), posOf(c, badCall)))
	}
}

// checkEndingClearsFirst (C15): every call ends exactly once: a function that frees the call slot
// (stores nil) does so before it calls anything that can come back to an ending function - saving
// and broadcasting the final message can detach a stuck party session, which ends "the call in
// progress" again while the slot is still taken (found defect D4; its repair is this order).
func (c *Ctx) checkEndingClearsFirst(slot *types.Var, reach map[*ssa.Function]bool) {
	r := c.R
	const rule = "C15.4b-slot-freed-before-reentrant-calls"
	n := 0
	direct := func(fn *ssa.Function) []ssa.Instruction {
		var clears []ssa.Instruction
		core.AllInstrs(fn, func(in ssa.Instruction) {
			if st, ok := in.(*ssa.Store); ok {
				if f, _ := core.FieldOfAddr(st.Addr); f == slot && core.IsNil(st.Val) && !rootsInAlloc(st.Addr) {
					clears = append(clears, in)
				}
			}
		})
		return clears
	}
	// a helper that frees the slot on every path (`releaseCurrentCall()`): calling it is freeing
	releases := map[*ssa.Function]bool{}
	for _, g := range c.P.ModFuncs {
		if !core.InPkg(g, "server") || len(g.Blocks) == 0 {
			continue
		}
		d := direct(g)
		if len(d) == 0 {
			continue
		}
		isD := func(in ssa.Instruction) bool {
			for _, x := range d {
				if x == in {
					return true
				}
			}
			return false
		}
		// (paths on which the slot was found empty aside)
		cutNil, _ := core.PassEdges(g, core.NilGuard("currentCall==nil", core.IsFieldLoad(slot), true))
		// ... and that does nothing that can come back to an ending function: it only frees
		pure := true
		core.AllInstrs(g, func(in ssa.Instruction) {
			if call, ok := in.(*ssa.Call); ok {
				if cal := call.Call.StaticCallee(); cal != nil && reach[cal] {
					pure = false
				}
			}
		})
		if found, _ := core.PathAvoiding(g, nil, core.IsReturn, isD, cutNil); !found && pure {
			releases[g] = true
		}
	}
	clearsOf := func(fn *ssa.Function) []ssa.Instruction {
		clears := direct(fn)
		core.AllInstrs(fn, func(in ssa.Instruction) {
			if call, ok := in.(*ssa.Call); ok {
				if cal := call.Call.StaticCallee(); cal != nil && cal != fn && releases[cal] {
					clears = append(clears, in)
				}
			}
		})
		return clears
	}
	for _, fn := range c.P.ModFuncs {
		if !core.InPkg(fn, "server") || fn.Parent() != nil {
			continue
		}
		clears := clearsOf(fn)
		if len(clears) == 0 {
			continue
		}
		n++
		r.Func(fk(fn))
		isClear := func(in ssa.Instruction) bool {
			for _, x := range clears {
				if x == in {
					return true
				}
			}
			return false
		}
		var bad ssa.Instruction
		core.AllInstrs(fn, func(in ssa.Instruction) {
			call, ok := in.(*ssa.Call)
			if !ok || bad != nil {
				return
			}
			cal := call.Call.StaticCallee()
			if cal == nil || !reach[cal] || cal == fn {
				return
			}
			if len(cal.Blocks) > 0 && len(clearsOf(cal)) > 0 {
				return // handing over to another ending function, which is held to the same rule
			}
			// reachable from the entry without the slot having been freed?
			if found, _ := core.PathAvoiding(fn, nil, func(x ssa.Instruction) bool { return x == in }, isClear, nil); found {
				bad = in
			}
		})
		r.Check(bad == nil, rule, fk(fn)+": the call slot is freed before anything that can end the call again", c.P.Pos(fn.Pos()), "",
			"the slot is still taken when "+describeCallSafe(bad)+posOf(c, bad)+" runs, which can reach an ending function (a stuck party session detached by the final broadcast): the same call is ended twice, recursively")
	}
	r.Check(n >= 1, rule, "functions that free the call slot", "-", fmt.Sprintf("%d", n), "none: anchor lost")
}

func describeCallSafe(in ssa.Instruction) string {
	if in == nil {
		return ""
	}
	return describeCall(in)
}

func (c *Ctx) checkCallRoles() {
	r := c.R
	slot := c.E().topicField("currentCall")
	partiesF := c.field("server", "videoCall", "parties")
	seqF := c.field("server", "videoCall", "seq")
	noteSeq := c.field("server", "MsgClientNote", "SeqId")
	eventF := c.field("server", "MsgClientNote", "Event")
	queueOut := c.method("server", "Session", "queueOut")
	perUser := c.E().topicField("perUser")
	fo := c.findFanout()
	// the call event handler: reads Note.Event and the slot
	var h *ssa.Function
	for _, fn := range c.P.ModFuncs {
		if core.InPkg(fn, "server") && c.readsField(fn, eventF) && c.readsField(fn, slot) && isPtrToNamedRecv(fn, "Topic") {
			h = fn
		}
	}
	if h == nil {
		c.lost("call event handler (Topic method reading MsgClientNote.Event and Topic.currentCall)")
	}
	r.Func(fk(h))
	r.Floor("C15.5-call-roles", 8)
	// forwarding sinks: queueOut calls in the handler
	var sinks []ssa.Instruction
	for _, q := range core.CallsTo(h, queueOut) {
		sinks = append(sinks, q.(ssa.Instruction))
	}
	r.Check(len(sinks) >= 2, "C15.5-call-roles", fk(h)+": forwards with queueOut on a party's session", "-", "", "call events are no longer forwarded to a single session")
	// never through the fan-out loop for ringing/accept/offer/answer/candidate: the fan-out function is
	// called directly only by the ending functions
	direct := 0
	core.AllInstrs(h, func(in ssa.Instruction) {
		if call, ok := in.(*ssa.Call); ok && call.Call.StaticCallee() == fo.fn {
			direct++
		}
	})
	r.Check(direct == 0, "C15.5-call-roles", fk(h)+": call events are not fanned out to all sessions", "-", "", "a call event is broadcast to every attached session instead of the other party's session")
	lenParties := func(n int64, want bool) core.Guard {
		return core.Guard{Name: fmt.Sprintf("len(parties)==%d", n), Match: func(a core.CondAtom) (bool, bool) {
			if a.Op != token.EQL {
				return false, false
			}
			var l ssa.Value
			if core.IsConstInt(n)(a.X) {
				l = a.Y
			} else if core.IsConstInt(n)(a.Y) {
				l = a.X
			}
			if l == nil || !isLenCall(l) || !core.IsFieldLoad(partiesF)(l.(*ssa.Call).Call.Args[0]) {
				return false, false
			}
			return true, want
		}}
	}
	gSeq := core.EqGuard("call.seq==note.SeqId", core.IsFieldLoad(seqF), core.IsFieldLoad(noteSeq), true)
	gUser := core.BoolGuard("sender is a subscriber", func(v ssa.Value) bool {
		ex, ok := v.(*ssa.Extract)
		if !ok || ex.Index != 1 {
			return false
		}
		lk, ok := ex.Tuple.(*ssa.Lookup)
		return ok && core.IsFieldLoad(perUser)(lk.X)
	}, true)
	gSlot := core.NilGuard("currentCall!=nil", core.IsFieldLoad(slot), false)
	sidF := c.E().sessionField("sid")
	for i, s := range sinks {
		construct := fmt.Sprintf("%s: forward #%d", fk(h), i+1)
		for _, g := range []struct {
			n string
			g core.Guard
			m string
		}{
			{"a call is in progress", gSlot, "call events are handled without a call in progress"},
			{"event names the current call", gSeq, "an event naming a different or finished call is forwarded"},
			{"sender is a subscriber", gUser, "a call event from a user who is not subscribed is forwarded"},
		} {
			ok, cnt := core.GuardedBy(h, s, g.g)
			r.Check(ok && cnt[0] > 0, "C15.5-call-roles", construct+" / "+g.n, c.pos(s), "", g.m)
		}
		// party-count discipline: each forward is behind len(parties)==1 or ==2
		ok, _ := core.GuardedBy(h, s, lenParties(1, true), lenParties(2, true))
		r.Check(ok, "C15.5-call-roles", construct+" / party count tested", c.pos(s), "", "a call event is forwarded without testing the number of call parties")
		// the receiver of queueOut is not the sender's session
		recv := core.CallArgs(s.(ssa.CallInstruction).Common())[0]
		notSender := !core.Derives(recv, func(v ssa.Value) bool {
			f, _ := core.LoadedField(v)
			return f != nil && f.Name() == "sess" && isPtrToNamedType(v, "ClientComMessage")
		}, false)
		r.Check(notSender, "C15.5-call-roles", construct+" / receiver is another party's session", c.pos(s), "", "a call event is echoed to the sending session")
	}
	// ringing/accept only from the callee: the forward under len(parties)==1 is behind
	// originator.sid != sender.sid AND originatorUid != asUid (either being equal refuses)
	for i, s := range sinks {
		if ok, cnt := core.GuardedBy(h, s, lenParties(1, true)); !(ok && cnt[0] > 0) {
			continue
		}
		construct := fmt.Sprintf("%s: forward #%d (ringing/accept)", fk(h), i+1)
		gSid := core.EqGuard("originator.sid!=sender.sid", core.IsFieldLoad(sidF), core.IsFieldLoad(sidF), false)
		ok1, c1 := core.GuardedBy(h, s, gSid)
		gUid := core.EqGuard("originatorUid!=asUid", isUidValue, isUidValue, false)
		ok2, c2 := core.GuardedBy(h, s, gUid)
		r.Check(ok1 && c1[0] > 0, "C15.5b-callee-only", construct+" / not from the originating session", c.pos(s), "", "ringing/accept from the originating session is forwarded")
		r.Check(ok2 && c2[0] > 0, "C15.5b-callee-only", construct+" / not from the originating user", c.pos(s), "", "ringing/accept from another session of the caller is accepted: the caller can accept its own call")
	}
	// offer/answer/candidate only from a party *session*: the forward under len(parties)==2 is behind
	// a successful lookup of the sender's session id in the party table (a second device of a party
	// is not a party)
	nMeta := 0
	for i, s := range sinks {
		if ok, cnt := core.GuardedBy(h, s, lenParties(2, true)); !(ok && cnt[0] > 0) {
			continue
		}
		nMeta++
		gParty := core.BoolGuard("parties[sender.sid] found", func(v ssa.Value) bool {
			ex, ok := v.(*ssa.Extract)
			if !ok || ex.Index != 1 {
				return false
			}
			lk, ok := ex.Tuple.(*ssa.Lookup)
			return ok && core.IsFieldLoad(partiesF)(lk.X) && core.IsFieldLoad(sidF)(lk.Index)
		}, true)
		ok, cnt := core.GuardedBy(h, s, gParty)
		r.Check(ok && cnt[0] > 0, "C15.5c-metadata-from-party-session", fmt.Sprintf("%s: forward #%d (offer/answer/candidate) / sender's session is a call party", fk(h), i+1), c.pos(s), "",
			"call metadata is forwarded without looking the sending session up in the party table: another session of a party (a second device that never joined the call) can inject offers, answers and ICE candidates into the call")
	}
	r.Check(nMeta >= 1, "C15.5c-metadata-from-party-session", fk(h)+": forwards of call metadata under len(parties)==2", "-", fmt.Sprintf("%d", nMeta), "none: anchor lost")
}

func isUidValue(v ssa.Value) bool {
	n, ok := v.Type().(*types.Named)
	return ok && n.Obj().Name() == "Uid"
}

func isPtrToNamedType(v ssa.Value, name string) bool {
	fa, ok := v.(*ssa.UnOp)
	if !ok {
		return false
	}
	f, ok := fa.X.(*ssa.FieldAddr)
	if !ok {
		return false
	}
	return isPtrToNamed(f.X.Type(), name)
}

func (c *Ctx) checkReplacementMessage() {
	r := c.R
	mh := c.ssaMethod("server", "videoCall", "messageHead")
	r.Func(fk(mh))
	seqF := c.field("server", "videoCall", "seq")
	r.Floor("C15.6-replacement-message", 3)
	var hasReplace, hasWebrtc bool
	core.AllInstrs(mh, func(in ssa.Instruction) {
		mu, ok := in.(*ssa.MapUpdate)
		if !ok {
			return
		}
		if core.IsConstString("replace")(mu.Key) {
			// value = ":" + strconv.Itoa(call.seq)
			v := core.Strip(mu.Value)
			if b, ok := v.(*ssa.BinOp); ok && b.Op == token.ADD && core.IsConstString(":")(b.X) {
				if call, ok := b.Y.(*ssa.Call); ok && core.IsFieldLoad(seqF)(call.Call.Args[0]) {
					hasReplace = true
				}
			}
		}
		if core.IsConstString("webrtc")(mu.Key) {
			if _, isP := core.Strip(mu.Value).(*ssa.Parameter); isP {
				hasWebrtc = true
			}
		}
	})
	r.Check(hasReplace, "C15.6-replacement-message", fk(mh)+": head[\"replace\"] = \":\" + seq of the invitation", c.P.Pos(mh.Pos()), "", "the replacement message does not reference the invitation's id")
	r.Check(hasWebrtc, "C15.6-replacement-message", fk(mh)+": head[\"webrtc\"] = new state", c.P.Pos(mh.Pos()), "", "the replacement message does not carry the call state")
	// call sites of the saving function in call life-cycle functions: head from messageHead, content = call.content, author = originator
	contentF := c.field("server", "videoCall", "content")
	getOrig := c.method("server", "Topic", "getCallOriginator")
	for _, sf := range c.funcsCalling(c.E().storeIface("MessagesPersistenceInterface", "Save"), "server") {
		sf = c.phaseRoot(sf)
		for _, cs := range c.callersOf(sf) {
			if c.readsField(cs.Caller, c.field("server", "MsgClientPub", "Content")) {
				continue
			}
			args := cs.Site.Common().Args // t, msg, asUid, noEcho, attachments, head, content
			if len(args) < 7 {
				continue
			}
			r.Func(fk(cs.Caller))
			construct := fk(cs.Caller) + ": replacement message"
			okHead := core.Derives(args[5], core.IsCallTo(c.method("server", "videoCall", "messageHead")), true)
			okContent := core.IsFieldLoad(contentF)(args[6])
			isOrig := func(v ssa.Value) bool {
				ex, ok := v.(*ssa.Extract)
				return ok && ex.Index == 0 && core.IsCallTo(getOrig)(ex.Tuple)
			}
			okAuthor := core.Derives(args[2], isOrig, true)
			if p, isParam := core.Strip(args[2]).(*ssa.Parameter); !okAuthor && isParam {
				// the saving was extracted into a helper taking the author: decided at its call sites
				idx := -1
				for i, q := range cs.Caller.Params {
					if q == p {
						idx = i
					}
				}
				up := c.callersOf(cs.Caller)
				okAuthor = idx >= 0 && len(up) > 0
				for _, u := range up {
					ua := u.Site.Common().Args
					if idx >= len(ua) || !core.Derives(ua[idx], isOrig, true) {
						okAuthor = false
					}
				}
			}
			r.Check(okHead, "C15.6-replacement-message", construct+" / head built by messageHead", c.pos(cs.Site), "", "acceptance/ending is not published with the replace/webrtc headers")
			r.Check(okContent, "C15.6-replacement-message", construct+" / content is the invitation's content", c.pos(cs.Site), "", "acceptance/ending does not carry the original invitation content")
			r.Check(okAuthor, "C15.6-replacement-message", construct+" / authored by the originator", c.pos(cs.Site), "", "acceptance/ending is not authored by the call originator")
		}
	}
}
